package main

// Verification harness for C32 (injected with `go test -overlay`; not part of the repository).
// Replays TLC-generated upload sessions against the real HTTP handlers of the LFS module
// (handleHTTPProduce, handleHTTPUploadInit, handleHTTPUploadSession) through httptest, with
//   - a fake s3API that behaves like S3's multipart store (object = exactly the listed parts,
//     strictly ascending part order, one injectable failure by call index), and
//   - a scripted Kafka broker on a loopback TCP socket that answers the produce request with the
//     scripted reply (error code 0, a positive or negative per-partition error code, a reply naming
//     no partition, or a closed connection).
// One ndjson line per request with the response and the projected session / bucket state.

import (
	"bufio"
	"bytes"
	"context"
	"crypto/sha256"
	"encoding/hex"
	"encoding/json"
	"errors"
	"fmt"
	"io"
	"log/slog"
	"math/rand"
	"net"
	"net/http"
	"net/http/httptest"
	"os"
	"sync"
	"sync/atomic"
	"testing"
	"time"

	"github.com/KafScale/platform/pkg/protocol"
	"github.com/aws/aws-sdk-go-v2/aws"
	"github.com/aws/aws-sdk-go-v2/service/s3"
	"github.com/twmb/franz-go/pkg/kmsg"
)

type vuStep struct {
	A      string `json:"a"`
	K      int    `json:"k"`
	Size   int    `json:"size"`
	N      int    `json:"n"`
	Len    int    `json:"len"`
	Listed []int  `json:"listed"`
	Reply  string `json:"reply"`
}

type vuSched struct {
	Unit  int      `json:"unit"`
	Seed  int64    `json:"seed"`
	Steps []vuStep `json:"steps"`
}

// ---- fake S3 --------------------------------------------------------------------------------

type vuMPU struct {
	key   string
	parts map[int32][]byte
	etags map[int32]string
	state string // open | done | aborted
}

type vuS3 struct {
	mu      sync.Mutex
	objects map[string][]byte
	layout  map[string][][2]int // key -> [[part number, bytes], ...] as assembled
	uploads map[string]*vuMPU
	last    *vuMPU
	calls   int
	faultAt int
}

func newVuS3() *vuS3 {
	return &vuS3{objects: map[string][]byte{}, layout: map[string][][2]int{}, uploads: map[string]*vuMPU{}}
}

// hit counts a fallible S3 API call and fails the scripted one.
func (f *vuS3) hit(op string) error {
	f.calls++
	if f.faultAt != 0 && f.calls == f.faultAt {
		return fmt.Errorf("verif: injected S3 failure at call %d (%s)", f.calls, op)
	}
	return nil
}

func (f *vuS3) CreateMultipartUpload(ctx context.Context, in *s3.CreateMultipartUploadInput, _ ...func(*s3.Options)) (*s3.CreateMultipartUploadOutput, error) {
	f.mu.Lock()
	defer f.mu.Unlock()
	if err := f.hit("CreateMultipartUpload"); err != nil {
		return nil, err
	}
	id := fmt.Sprintf("mpu-%d", len(f.uploads)+1)
	u := &vuMPU{key: *in.Key, parts: map[int32][]byte{}, etags: map[int32]string{}, state: "open"}
	f.uploads[id] = u
	f.last = u
	return &s3.CreateMultipartUploadOutput{UploadId: aws.String(id)}, nil
}

func (f *vuS3) UploadPart(ctx context.Context, in *s3.UploadPartInput, _ ...func(*s3.Options)) (*s3.UploadPartOutput, error) {
	f.mu.Lock()
	defer f.mu.Unlock()
	if err := f.hit("UploadPart"); err != nil {
		return nil, err
	}
	u := f.uploads[*in.UploadId]
	if u == nil || u.state != "open" || u.key != *in.Key {
		return nil, errors.New("NoSuchUpload")
	}
	body, err := io.ReadAll(in.Body)
	if err != nil {
		return nil, err
	}
	sum := sha256.Sum256(body)
	etag := fmt.Sprintf("\"etag-%d-%x\"", *in.PartNumber, sum[:6])
	u.parts[*in.PartNumber] = body
	u.etags[*in.PartNumber] = etag
	return &s3.UploadPartOutput{ETag: aws.String(etag)}, nil
}

func (f *vuS3) CompleteMultipartUpload(ctx context.Context, in *s3.CompleteMultipartUploadInput, _ ...func(*s3.Options)) (*s3.CompleteMultipartUploadOutput, error) {
	f.mu.Lock()
	defer f.mu.Unlock()
	if err := f.hit("CompleteMultipartUpload"); err != nil {
		return nil, err
	}
	u := f.uploads[*in.UploadId]
	if u == nil || u.state != "open" || u.key != *in.Key {
		return nil, errors.New("NoSuchUpload: the specified upload does not exist")
	}
	if in.MultipartUpload == nil || len(in.MultipartUpload.Parts) == 0 {
		return nil, errors.New("MalformedXML: no parts listed")
	}
	prev := int32(0)
	var data []byte
	var lay [][2]int
	for i, p := range in.MultipartUpload.Parts {
		if p.PartNumber == nil || p.ETag == nil {
			return nil, errors.New("MalformedXML")
		}
		if *p.PartNumber <= prev {
			return nil, errors.New("InvalidPartOrder: the list of parts was not in ascending order")
		}
		prev = *p.PartNumber
		body, ok := u.parts[*p.PartNumber]
		if !ok || u.etags[*p.PartNumber] != *p.ETag {
			return nil, errors.New("InvalidPart: one or more of the specified parts could not be found")
		}
		if i < len(in.MultipartUpload.Parts)-1 && len(body) < 5<<20 {
			return nil, errors.New("EntityTooSmall: proposed upload is smaller than the minimum allowed object size")
		}
		data = append(data, body...)
		lay = append(lay, [2]int{int(*p.PartNumber), len(body)})
	}
	u.state = "done"
	f.objects[u.key] = data
	f.layout[u.key] = lay
	return &s3.CompleteMultipartUploadOutput{}, nil
}

func (f *vuS3) AbortMultipartUpload(ctx context.Context, in *s3.AbortMultipartUploadInput, _ ...func(*s3.Options)) (*s3.AbortMultipartUploadOutput, error) {
	f.mu.Lock()
	defer f.mu.Unlock()
	if u := f.uploads[*in.UploadId]; u != nil && u.state == "open" {
		u.state = "aborted"
		u.parts = map[int32][]byte{}
	}
	return &s3.AbortMultipartUploadOutput{}, nil
}

func (f *vuS3) PutObject(ctx context.Context, in *s3.PutObjectInput, _ ...func(*s3.Options)) (*s3.PutObjectOutput, error) {
	f.mu.Lock()
	defer f.mu.Unlock()
	if err := f.hit("PutObject"); err != nil {
		return nil, err
	}
	body, err := io.ReadAll(in.Body)
	if err != nil {
		return nil, err
	}
	f.objects[*in.Key] = body
	f.layout[*in.Key] = [][2]int{{1, len(body)}}
	return &s3.PutObjectOutput{}, nil
}

func (f *vuS3) GetObject(ctx context.Context, in *s3.GetObjectInput, _ ...func(*s3.Options)) (*s3.GetObjectOutput, error) {
	f.mu.Lock()
	defer f.mu.Unlock()
	data, ok := f.objects[*in.Key]
	if !ok {
		return nil, errors.New("NoSuchKey")
	}
	n := int64(len(data))
	return &s3.GetObjectOutput{Body: io.NopCloser(bytes.NewReader(data)), ContentLength: &n}, nil
}

func (f *vuS3) DeleteObject(ctx context.Context, in *s3.DeleteObjectInput, _ ...func(*s3.Options)) (*s3.DeleteObjectOutput, error) {
	f.mu.Lock()
	defer f.mu.Unlock()
	delete(f.objects, *in.Key)
	delete(f.layout, *in.Key)
	return &s3.DeleteObjectOutput{}, nil
}

func (f *vuS3) HeadBucket(context.Context, *s3.HeadBucketInput, ...func(*s3.Options)) (*s3.HeadBucketOutput, error) {
	return &s3.HeadBucketOutput{}, nil
}

func (f *vuS3) CreateBucket(context.Context, *s3.CreateBucketInput, ...func(*s3.Options)) (*s3.CreateBucketOutput, error) {
	return &s3.CreateBucketOutput{}, nil
}

// ---- scripted broker ------------------------------------------------------------------------

// vuNoAck: the broker gave no code for the record's partition (connection closed, or a reply without it).
const vuNoAck = 1000

type vuProduced struct {
	key  string // object key named by the envelope in the record
	code int    // error code replied for the record's partition; vuNoAck if none
}

type vuBroker struct {
	ln    net.Listener
	mu    sync.Mutex
	reply string
	log   []vuProduced
	errs  []string
	wg    sync.WaitGroup
}

func (b *vuBroker) run() {
	for {
		c, err := b.ln.Accept()
		if err != nil {
			return
		}
		b.wg.Add(1)
		go func(conn net.Conn) {
			defer b.wg.Done()
			defer conn.Close()
			frame, err := protocol.ReadFrame(conn)
			if err != nil {
				return // connection opened and closed without a request
			}
			b.mu.Lock()
			defer b.mu.Unlock()
			header, req, err := protocol.ParseRequest(frame.Payload)
			if err != nil {
				b.errs = append(b.errs, "unparseable request: "+err.Error())
				return
			}
			preq, ok := req.(*kmsg.ProduceRequest)
			if !ok {
				b.errs = append(b.errs, fmt.Sprintf("unexpected api key %d", header.APIKey))
				return
			}
			key := ""
			if i := bytes.Index(frame.Payload, []byte(`{"kfs_lfs"`)); i >= 0 {
				var env struct {
					Key string `json:"key"`
				}
				if err := json.NewDecoder(bytes.NewReader(frame.Payload[i:])).Decode(&env); err == nil {
					key = env.Key
				}
			}
			if key == "" {
				b.errs = append(b.errs, "produce request without an LFS envelope record")
			}
			code := int16(0)
			switch b.reply {
			case "conn":
				b.log = append(b.log, vuProduced{key: key, code: vuNoAck})
				return
			case "empty": // a well-formed reply that names no topic / partition
				empty := kmsg.NewPtrProduceResponse()
				empty.SetVersion(header.APIVersion)
				b.log = append(b.log, vuProduced{key: key, code: vuNoAck})
				_ = protocol.WriteFrame(conn, protocol.EncodeResponse(header.CorrelationID, header.APIVersion, empty))
				return
			case "perr":
				code = 6 // NOT_LEADER_OR_FOLLOWER
			case "nerr":
				code = -1 // UNKNOWN_SERVER_ERROR
			}
			resp := kmsg.NewPtrProduceResponse()
			resp.SetVersion(header.APIVersion)
			for _, t := range preq.Topics {
				rt := kmsg.NewProduceResponseTopic()
				rt.Topic = t.Topic
				for _, p := range t.Partitions {
					rp := kmsg.NewProduceResponseTopicPartition()
					rp.Partition = p.Partition
					rp.ErrorCode = code
					rt.Partitions = append(rt.Partitions, rp)
				}
				resp.Topics = append(resp.Topics, rt)
			}
			b.log = append(b.log, vuProduced{key: key, code: int(code)})
			_ = protocol.WriteFrame(conn, protocol.EncodeResponse(header.CorrelationID, header.APIVersion, resp))
		}(c)
	}
}

// ---- driver ---------------------------------------------------------------------------------

func vuSha(b []byte) string {
	s := sha256.Sum256(b)
	return hex.EncodeToString(s[:])
}

func vuUnits(n int64, unit int) int {
	if unit <= 0 || n%int64(unit) != 0 {
		return -1
	}
	return int(n / int64(unit))
}

func TestVerifLfsUpload(t *testing.T) {
	in, outPath := os.Getenv("VERIF_SCHEDULES"), os.Getenv("VERIF_TRACE_OUT")
	if in == "" || outPath == "" {
		t.Skip("no schedules")
	}
	f, err := os.Open(in)
	if err != nil {
		t.Fatal(err)
	}
	defer f.Close()
	out, err := os.Create(outPath)
	if err != nil {
		t.Fatal(err)
	}
	defer out.Close()
	w := bufio.NewWriter(out)
	defer w.Flush()
	emit := func(m map[string]any) {
		b, _ := json.Marshal(m)
		w.Write(b)
		w.WriteByte('\n')
	}
	logger := slog.New(slog.NewTextHandler(io.Discard, nil))
	ln, err := net.Listen("tcp", "127.0.0.1:0")
	if err != nil {
		t.Fatal(err)
	}
	defer ln.Close()
	broker := &vuBroker{ln: ln, reply: "ok"}
	go broker.run()

	const maxPart = 3
	var blocks [maxPart + 1][]byte
	blockSeed, blockUnit := int64(-1), -1
	sc := bufio.NewScanner(f)
	sc.Buffer(make([]byte, 1<<20), 1<<26)
	n := 0
	for sc.Scan() {
		var s vuSched
		if err := json.Unmarshal(sc.Bytes(), &s); err != nil {
			t.Fatal(err)
		}
		if s.Seed != blockSeed || s.Unit != blockUnit {
			r := rand.New(rand.NewSource(s.Seed))
			for i := 1; i <= maxPart; i++ {
				blocks[i] = make([]byte, 5*s.Unit)
				r.Read(blocks[i])
			}
			blockSeed, blockUnit = s.Seed, s.Unit
		}
		fs3 := newVuS3()
		m := &lfsModule{
			logger:           logger,
			s3Uploader:       &s3Uploader{bucket: "verif-bucket", region: "us-east-1", chunkSize: 5 << 20, api: fs3},
			s3Bucket:         "verif-bucket",
			s3Namespace:      "verif-ns",
			maxBlob:          5 << 30,
			chunkSize:        5 << 20,
			checksumAlg:      "sha256",
			proxyID:          "verif-proxy",
			metrics:          newLfsMetrics(),
			tracker:          &LfsOpsTracker{config: TrackerConfig{}, logger: logger},
			topicMaxLength:   249,
			downloadTTLMax:   2 * time.Minute,
			uploadSessionTTL: time.Hour,
			uploadSessions:   make(map[string]*uploadSession),
			backends:         []string{ln.Addr().String()},
			backendRetries:   1,
			dialTimeout:      120 * time.Second,
		}
		atomic.StoreUint32(&m.s3Healthy, 1)
		mux := http.NewServeMux() // same routes as startHTTPServer
		mux.HandleFunc("/lfs/produce", m.lfsCORSMiddleware(m.handleHTTPProduce))
		mux.HandleFunc("/lfs/uploads", m.lfsCORSMiddleware(m.handleHTTPUploadInit))
		mux.HandleFunc("/lfs/uploads/", m.lfsCORSMiddleware(m.handleHTTPUploadSession))
		do := func(method, path string, hdr map[string]string, body []byte) *httptest.ResponseRecorder {
			req := httptest.NewRequest(method, path, bytes.NewReader(body))
			for k, v := range hdr {
				req.Header.Set(k, v)
			}
			rr := httptest.NewRecorder()
			mux.ServeHTTP(rr, req)
			return rr
		}
		broker.mu.Lock()
		broker.log = nil
		broker.mu.Unlock()
		sessionID, singleDone := "", false
		etags := map[int]string{}
		project := func() map[string]any {
			phase, next, total := "idle", 0, 0
			parts := []int{}
			m.uploadMu.Lock()
			sess := m.uploadSessions[sessionID]
			m.uploadMu.Unlock()
			switch {
			case sess != nil:
				phase = "open"
				sess.mu.Lock()
				next, total = int(sess.NextPart), vuUnits(sess.TotalUploaded, s.Unit)
				for i := int32(1); i < sess.NextPart; i++ {
					parts = append(parts, vuUnits(sess.PartSizes[i], s.Unit))
				}
				sess.mu.Unlock()
			case sessionID != "" || singleDone:
				phase = "closed"
			}
			fs3.mu.Lock()
			defer fs3.mu.Unlock()
			mpu := "none"
			if fs3.last != nil && sessionID != "" {
				mpu = fs3.last.state
			}
			obj := [][]int{}
			if len(fs3.objects) > 1 {
				t.Fatalf("more than one object in the bucket for one upload")
			}
			for k := range fs3.objects {
				for _, pl := range fs3.layout[k] {
					obj = append(obj, []int{pl[0], vuUnits(int64(pl[1]), s.Unit)})
				}
			}
			return map[string]any{"phase": phase, "next": next, "total": total, "parts": parts, "mpu": mpu, "obj": obj, "s3calls": fs3.calls}
		}
		// observation of the outcome of a final request (what layer O evaluates)
		observe := func(rr *httptest.ResponseRecorder) map[string]any {
			o := map[string]any{"objExists": false, "objSize": 0, "objSha": "", "envSize": 0, "envSha": "", "envKey": "", "ack": vuNoAck}
			if rr.Code != http.StatusOK {
				return o
			}
			var env struct {
				Key    string `json:"key"`
				Size   int64  `json:"size"`
				SHA256 string `json:"sha256"`
			}
			if err := json.Unmarshal(rr.Body.Bytes(), &env); err != nil {
				o["envKey"] = "undecodable"
				return o
			}
			o["envKey"], o["envSize"], o["envSha"] = env.Key, env.Size, env.SHA256
			fs3.mu.Lock()
			if data, ok := fs3.objects[env.Key]; ok {
				o["objExists"], o["objSize"], o["objSha"] = true, len(data), vuSha(data)
			}
			fs3.mu.Unlock()
			broker.wg.Wait()
			broker.mu.Lock()
			for _, p := range broker.log {
				if p.key == env.Key {
					o["ack"] = p.code
				}
			}
			broker.mu.Unlock()
			return o
		}
		emit(map[string]any{"ev": "Reset", "sched": n, "unit": s.Unit})
		for _, st := range s.Steps {
			broker.mu.Lock()
			broker.reply = "ok"
			if st.Reply != "" {
				broker.reply = st.Reply
			}
			broker.mu.Unlock()
			line := map[string]any{"ev": st.A, "final": false}
			broker.mu.Lock()
			seenProduces := len(broker.log)
			broker.mu.Unlock()
			var rr *httptest.ResponseRecorder
			switch st.A {
			case "Arm":
				fs3.faultAt = st.K
				line["k"] = st.K
				line["status"] = 0
			case "Single":
				body := make([]byte, 0, st.Size*s.Unit)
				for i, left := 1, st.Size; left > 0; i, left = i+1, left-5 {
					l := left
					if l > 5 {
						l = 5
					}
					if i > maxPart {
						t.Fatalf("single upload of %d units needs more than %d chunks", st.Size, maxPart)
					}
					body = append(body, blocks[i][:l*s.Unit]...)
				}
				rr = do(http.MethodPost, "/lfs/produce", map[string]string{"X-Kafka-Topic": "verif-topic", "Content-Type": "application/octet-stream"}, body)
				singleDone = true
				line["size"], line["reply"], line["final"] = st.Size, st.Reply, true
			case "Init":
				body, _ := json.Marshal(map[string]any{"topic": "verif-topic", "content_type": "application/octet-stream", "size_bytes": st.Size * s.Unit})
				rr = do(http.MethodPost, "/lfs/uploads", map[string]string{"Content-Type": "application/json"}, body)
				if rr.Code == http.StatusOK {
					var resp lfsUploadInitResponse
					if err := json.Unmarshal(rr.Body.Bytes(), &resp); err != nil || resp.UploadID == "" {
						t.Fatalf("init response undecodable: %s", rr.Body.String())
					}
					if resp.PartSize != 5<<20 {
						t.Fatalf("unexpected part size %d", resp.PartSize)
					}
					sessionID = resp.UploadID
				}
				line["size"] = st.Size
			case "Part":
				if st.N < 1 || st.N > maxPart {
					t.Fatalf("part number %d outside the harness range", st.N)
				}
				rr = do(http.MethodPut, fmt.Sprintf("/lfs/uploads/%s/parts/%d", sessionID, st.N), nil, blocks[st.N][:st.Len*s.Unit])
				if rr.Code == http.StatusOK {
					var resp lfsUploadPartResponse
					if err := json.Unmarshal(rr.Body.Bytes(), &resp); err != nil || resp.ETag == "" {
						t.Fatalf("part response undecodable: %s", rr.Body.String())
					}
					etags[st.N] = resp.ETag
				}
				line["n"], line["len"] = st.N, st.Len
			case "Complete":
				type cp struct {
					PartNumber int32  `json:"part_number"`
					ETag       string `json:"etag"`
				}
				list := []cp{}
				for _, pn := range st.Listed {
					e, ok := etags[pn]
					if !ok {
						e = "\"etag-never-uploaded\""
					}
					list = append(list, cp{PartNumber: int32(pn), ETag: e})
				}
				body, _ := json.Marshal(map[string]any{"parts": list})
				rr = do(http.MethodPost, fmt.Sprintf("/lfs/uploads/%s/complete", sessionID), map[string]string{"Content-Type": "application/json"}, body)
				listed := st.Listed
				if listed == nil {
					listed = []int{}
				}
				line["listed"], line["reply"], line["final"] = listed, st.Reply, true
			case "Abort":
				rr = do(http.MethodDelete, "/lfs/uploads/"+sessionID, nil, nil)
			default:
				t.Fatalf("unknown step %q", st.A)
			}
			if rr != nil {
				line["status"] = rr.Code
				o := observe(rr)
				line["o"] = o
				line["shaMatch"] = o["objExists"] == true && o["objSha"] == o["envSha"]
			} else {
				line["o"] = map[string]any{"objExists": false, "objSize": 0, "objSha": "", "envSize": 0, "envSha": "", "envKey": "", "ack": vuNoAck}
				line["shaMatch"] = false
			}
			// the broker's answer to a produce request received during this step (-2: none received)
			line["broker"] = -2
			broker.mu.Lock()
			if len(broker.log) > seenProduces+1 {
				t.Fatalf("more than one produce request for one HTTP request")
			}
			if len(broker.log) > seenProduces {
				line["broker"] = broker.log[len(broker.log)-1].code
			}
			broker.mu.Unlock()
			line["st"] = project()
			emit(line)
		}
		broker.wg.Wait()
		broker.mu.Lock()
		if len(broker.errs) > 0 {
			t.Fatalf("scripted broker: %v", broker.errs)
		}
		broker.mu.Unlock()
		n++
	}
	t.Logf("replayed %d schedules", n)
}
