"""LfsUpload.tla — C32 (cmd/proxy LFS HTTP upload API: single request and multipart sessions)."""
import copy, json, os, random, re
from lib import tlc as T, layers, gorun
from lib.common import Broken, Violation, verdict, save_replay

PROPS = {
    "C32": {
        "text": "LfsUpload.tla models the LFS HTTP upload API one action per request (single-request upload through UploadStream, multipart session init / part / complete with an arbitrary part list / abort), S3 as a multipart store that assembles exactly the listed parts with one injectable API failure, the running hash, the envelope and the produce to a broker whose reply (error code 0, per-partition error, closed connection) is an environment choice. TLC checks C32 exhaustively on the repaired design and finds it violated for each named wrong design; TLC-generated request sequences (one per reachable model state, simulation runs, deviation counterexamples) are replayed against the real handlers through httptest with a fake s3API and a scripted loopback Kafka broker, and TLC validates the recorded traces: C32 on observed status / returned envelope / stored object / broker reply code (layer O) and step-by-step conformance of status, session state and bucket state with the model (layer C).",
        "note": "Trusted: TLC, the fake s3API (parts by number, strictly ascending completion list, object = concatenation of exactly the listed parts), the scripted broker, crypto/sha256 in the harness. Requests of one upload are issued sequentially (each handler holds the session lock for its whole duration); one upload per schedule; client-supplied checksums, session expiry, TLS/SASL to the broker and the Kafka-protocol LFS rewrite path are out of scope.",
        "technique": "TLA+ model (LfsUpload.tla) + TLC exhaustive check + replay of TLC behaviours into the real HTTP handlers + TLC trace validation (observation and conformance layers)",
    }
}
DEVIATIONS = {  # cfg suffix -> invariant TLC must report
    "IgnoreReply": "C32_Acked", "IgnoreReplyMulti": "C32_Acked", "SubsetParts": "C32_Stored",
    "HashBeforeStore": "C32_Stored", "IgnoreCompleteErr": "C32_Stored", "NegativeAck": "C32_Acked", "EmptyAck": "C32_Acked", "DupParts": "C32_Stored",
}
NO_ACK = 1000  # harness/model value for 'the broker gave no code for the partition'
UNIT = 1 << 20  # one model size unit = 1 MiB (part size / minimum part size = 5 units)


def harness(ctx, scheds, tag):
    sp = os.path.join(ctx.scratch, "sched-%s.ndjson" % tag)
    tp = os.path.join(ctx.scratch, "trace-%s.ndjson" % tag)
    gorun.write_ndjson(sp, scheds)
    rc, out = gorun.go_test(ctx, ".", "./cmd/proxy/", {"cmd/proxy/zz_verif_lfsupload_test.go": os.path.join(DIR, "harness", "lfs_upload_verif_test.go")},
                            "^TestVerifLfsUpload$", env={"VERIF_SCHEDULES": sp, "VERIF_TRACE_OUT": tp}, timeout=1800)
    if rc != 0 or "replayed %d schedules" % len(scheds) not in out:
        raise Broken("upload harness failed:\n" + out[-3000:])
    return gorun.read_ndjson(tp)


def split(rows):
    runs, cur = [], None
    for r in rows:
        if r["ev"] == "Reset":
            cur = []
            runs.append(cur)
        cur.append(r)
    return runs


def maximal(hs):
    pref = set()
    for h in hs:
        for i in range(len(h)):
            pref.add(json.dumps(h[:i], sort_keys=True))
    seen, out = set(), []
    for h in hs:
        k = json.dumps(h, sort_keys=True)
        if k in pref or k in seen or not h:
            continue
        seen.add(k)
        out.append(h)
    out.sort(key=lambda h: json.dumps(h, sort_keys=True))
    return out


def sig_of(inv, run, ev):
    """What fails: predicate + request kind + the discriminating circumstance of the schedule."""
    kind = ev["ev"].lower()
    if inv == "C32_Acked":
        a = ev["o"]["ack"]
        cls = "broker_reply_code_%s" % ("none" if a == NO_ACK else "negative" if a < 0 else "nonzero")
    else:
        o = ev["o"]
        if not o["objExists"]:
            cls = "no_object"
        elif o["objSize"] != o["envSize"]:
            cls = "size_differs"
            if ev["ev"] == "Complete":
                before = [r for r in run[:run.index(ev)] if r["ev"] != "Reset" and r["st"]["phase"] == "open"]
                nup = len(before[-1]["st"]["parts"]) if before else 0
                ls = ev.get("listed", [])
                cls = "subset_of_parts_listed" if len(ls) < nup else "repeated_part_listed" if len(set(ls)) < len(ls) else "size_differs"
        else:
            retried = any(r["ev"] == "Part" and r["status"] >= 500 for r in run)
            cls = "digest_differs_after_failed_part" if retried else "digest_differs"
    return "%s@%s.%s" % (inv, kind, cls)


def check(ctx, prop):
    quick = ctx.quick()
    rnd = random.Random(ctx.seed)
    d = T.stage(ctx, DIR, "mc")
    mc = T.model_check(ctx, d, "MC_LfsUpload.tla", "MC_LfsUpload_%s.cfg" % ctx.tier, coverage=not quick, timeout=1500, workers=1)
    cover = maximal(mc.prints.get("SCHED", []))
    if len(mc.prints.get("SCHED", [])) != mc.distinct:
        raise Broken("state cover incomplete: %d histories printed for %d states" % (len(mc.prints.get("SCHED", [])), mc.distinct))
    ctx.log("model: %d distinct states, depth %d, %d maximal state-cover schedules" % (mc.distinct, mc.depth, len(cover)))
    scheds, labels = [], []
    for dev, inv in sorted(DEVIATIONS.items()):
        h, r = T.counterexample_hist(ctx, d, "MC_LfsUpload.tla", "Dev_LfsUpload_%s.cfg" % dev, timeout=300, workers=4)
        if h is None or inv not in r.violated:
            raise Broken("deviation %s no longer violates %s in the model (vacuous deviation)" % (dev, inv))
        scheds.append({"unit": UNIT, "seed": ctx.seed, "steps": h}); labels.append("dev:" + dev)
    ndev = len(scheds)
    # state cover, stratified by (request kind, broker reply, shape of the completion list) so that every reply of the
    # alphabet and every list shape is replayed on both upload paths; "ok" also labels requests that never reach the produce
    fin = [h for h in cover if h[-1]["a"] in ("Complete", "Single")]
    oth = [h for h in cover if h[-1]["a"] not in ("Complete", "Single")]
    groups = {}
    for h in fin:
        groups.setdefault((h[-1]["a"], h[-1]["reply"], h[-1].get("cls", "")), []).append(h)
    pick = []
    for k in sorted(groups):
        if quick:
            want = (24 if k[2] in ("", "exact") else 8) if k[1] == "ok" else 10
        else:
            want = 400 if k[2] in ("", "exact") else 150
        pick += rnd.sample(groups[k], min(want, len(groups[k])))
    pick += rnd.sample(oth, min(30 if quick else 800, len(oth)))
    for h in pick:
        scheds.append({"unit": UNIT, "seed": ctx.seed, "steps": h}); labels.append("cover")
    hs, _ = T.simulate_hists(ctx, d, "MC_LfsUpload.tla", "Sim_LfsUpload.cfg", num=(60 if quick else 400), depth=9, seed=ctx.seed)
    known = {json.dumps(s["steps"], sort_keys=True) for s in scheds}
    for h in hs:
        if json.dumps(h, sort_keys=True) not in known:
            scheds.append({"unit": UNIT, "seed": ctx.seed, "steps": h}); labels.append("sim")
    ctx.log("%d schedules (%d deviation counterexamples, %d state-cover, %d simulated)" % (len(scheds), ndev, len(pick), len(scheds) - ndev - len(pick)))
    rows = harness(ctx, scheds, "main")
    runs = split(rows)
    if len(runs) != len(scheds) or sum(len(r) - 1 for r in runs) != sum(len(s["steps"]) for s in scheds):
        raise Broken("harness recorded %d runs for %d schedules" % (len(runs), len(scheds)))
    finals = [r for r in rows if r["ev"] in ("Complete", "Single")]
    ok200 = [r for r in finals if r["status"] == 200]
    acks = {}
    for r in finals:
        if r["broker"] != -2:
            k = "code=%d->http=%d" % (r["broker"], r["status"])
            acks[k] = acks.get(k, 0) + 1
    if not ok200 or not any(r["status"] >= 500 for r in finals) or not any(r["ev"] == "Complete" and r["status"] == 200 and len(r["st"]["obj"]) >= 2 for r in rows):
        raise Broken("vacuous run: %d successful uploads of %d final requests" % (len(ok200), len(finals)))
    consumed, viol, _ = layers.observe(ctx, DIR, "Obs_LfsUpload.tla", "Obs_LfsUpload.cfg", rows, timeout=1200)
    violations, first = [], set()
    for line, inv in sorted(viol):
        ev = rows[line - 1]
        idx = sum(1 for r in rows[:line] if r["ev"] == "Reset") - 1
        if (idx, inv) in first:
            continue
        first.add((idx, inv))
        sig = sig_of(inv, runs[idx], ev)
        path = save_replay(prop, "sched-%s.json" % re.sub(r"\W", "_", sig), {"schedule": scheds[idx], "label": labels[idx], "trace": runs[idx], "line": ev})
        o = ev["o"]
        violations.append(Violation(prop, sig, "%s false on the real handlers: %s answered HTTP %d with envelope size=%s sha256=%s..; bucket object exists=%s size=%s sha256=%s..; broker reply code=%s [schedule %s: %s, replay %s]" % (
            inv, ev["ev"], ev["status"], o["envSize"], o["envSha"][:12], o["objExists"], o["objSize"], o["objSha"][:12], o["ack"], labels[idx], json.dumps(scheds[idx]["steps"]), path),
            {"schedule": scheds[idx], "event": ev}))
    reached, total, _ = layers.conform(ctx, DIR, "Trace_LfsUpload.tla", "Trace_LfsUpload.cfg", rows, timeout=1200)
    drift = reached != total
    conf = {"reached": reached, "total": total, "first_rejection": rows[reached] if drift and reached < len(rows) else None}
    st = self_test(ctx, runs)
    level = "model_checking"
    if drift and not violations:
        level = "exploration"
        ctx.log("DRIFT: conformance layer rejected line %d although C32 held: %s" % (reached + 1, json.dumps(conf["first_rejection"])[:800]))
    def nontrivial(s):
        a = s["steps"]
        return a[-1]["a"] in ("Complete", "Single") and (a[0]["a"] == "Arm" or a[-1].get("reply") != "ok" or (a[-1]["a"] == "Complete" and sum(1 for x in a if x["a"] == "Part") >= 2))
    cov = {
        "states": mc.distinct, "transitions": mc.generated, "depth": mc.depth, "exhaustive": True,
        "model_config": "MC_LfsUpload_%s.cfg" % ctx.tier,
        "traces_validated_against_impl": len(runs), "trace_events": len(rows),
        "evaluations": len(scheds), "distinct_nontrivial": sum(1 for s in scheds if nontrivial(s)),
        "rule": "schedules = TLC counterexamples of the named deviations + one history per reachable model state (maximal ones; seeded sample stratified by request kind x broker reply x completion-list shape) + TLC -simulate behaviours; non-trivial = ends in a request that reports an upload outcome and has an injected S3 failure, a non-ok broker reply, or a completion after >=2 part requests",
        "final_requests": len(finals), "successful_uploads_observed": len(ok200), "broker_replies_observed": acks,
        "deviation_schedules": sorted(DEVIATIONS), "conformance": ("drift" if drift else "accepted"), "conformance_detail": conf,
        "binding_self_test": st,
        "samples": [scheds[0], scheds[min(len(scheds) - 1, ndev + 1)], runs[min(len(runs) - 1, ndev + 1)][:5]],
    }
    if not quick:
        cov["action_coverage"] = {k: v[1] for k, v in mc.action_coverage().items()}
    return verdict(ctx, violations, level, cov, [
        "each handler runs to completion before the next request is issued (the session mutex serialises requests of one session in the real server as well)",
        "S3 is a fake s3API with multipart semantics (exactly the listed parts, ascending order, etag match); at most one injected API failure per schedule",
        "digest equality is evaluated on the hex SHA-256 in the returned envelope and the SHA-256 the harness computes over the fake bucket's object bytes; the model identifies a digest with the sequence of chunks hashed",
        "1 model size unit = 1 MiB; part bodies are seeded pseudo-random blocks, distinct per part number",
    ])


def self_test(ctx, runs):
    """Corrupt recorded fields: layer O must flag a wrong stored size, layer C must reject a changed session state."""
    run = next((r for r in runs if r[-1]["ev"] == "Complete" and r[-1]["status"] == 200 and len(r[-1]["st"]["obj"]) >= 2), None)
    if run is None:
        raise Broken("binding self-test: no successful multipart completion in the traces")
    bad = copy.deepcopy(run)
    bad[-1]["o"]["objSize"] += 1
    _, viol, _ = layers.observe(ctx, DIR, "Obs_LfsUpload.tla", "Obs_LfsUpload.cfg", bad, name="selfO")
    if not any(v[1] == "C32_Stored" for v in viol):
        raise Broken("binding self-test: observation layer did not flag a corrupted object size")
    bad = copy.deepcopy(run)
    tgt = next(r for r in bad if r["ev"] == "Part" and r["status"] == 200)
    tgt["st"]["total"] += 1
    reached, total, _ = layers.conform(ctx, DIR, "Trace_LfsUpload.tla", "Trace_LfsUpload.cfg", bad, name="selfC")
    if reached == total:
        raise Broken("binding self-test: conformance layer accepted a corrupted session state")
    return {"observation_layer_flags_corrupted_field": True, "conformance_layer_rejects_corrupted_state": True}


def replay(ctx, prop, path):
    obj = json.load(open(path))
    sched = obj.get("schedule") or obj.get("detail", {}).get("schedule")
    rows = harness(ctx, [sched], "replay")
    _, viol, _ = layers.observe(ctx, DIR, "Obs_LfsUpload.tla", "Obs_LfsUpload.cfg", rows)
    for r in rows:
        print(json.dumps(r, sort_keys=True))
    for line, inv in viol:
        print("VIOLATION property=%s replay=%s" % (prop, path))
        print("  %s false at line %d" % (inv, line))
    return 1 if viol else 0
