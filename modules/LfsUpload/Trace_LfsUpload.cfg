CONSTANTS
 Sizes = {1, 5, 6, 10, 11}
 SingleSizes = {1, 5, 6, 10, 11}
 Lens = {1, 5}
 MaxPart = 3
 MaxFault = 6
 MaxOps = 1000000
 FixCheckReply = TRUE
 FixAllParts = TRUE
 FixHashAfterStore = TRUE
 DevIgnoreCompleteErr = FALSE
 DevNegAck = FALSE
 DevEmptyAck = FALSE
 DevDupParts = FALSE
INIT TInit
NEXT TNext
POSTCONDITION Reached
CHECK_DEADLOCK FALSE
