---- MODULE Obs_LfsVerify ----
(* Observation layer: no model.  Every recorded line carries what the harness presented to the   *)
(* real function (envelope fields as written, flags, limits; concrete hex checksums and byte     *)
(* sizes) and what the real function returned (blob size and the blob's checksums computed with  *)
(* the standard library).  The C30 predicates are the LfsVerifyProps definitions.                *)
EXTENDS Integers, Sequences, FiniteSets, TLC, Json
TraceLog == ndJsonDeserialize("trace.ndjson")
VARIABLES l, viol
ovars == <<l, viol>>
P(e) == INSTANCE LfsVerifyProps WITH
      entry <- e.c.entry, alg <- e.p.alg, ck <- e.p.ck, sha <- e.p.sha, validate <- e.p.validate,
      max <- e.p.max, supSize <- e.p.supSize, ret <- e.out.ret, bsize <- e.out.bsize, bhash <- e.out.bhash
OInit == l = 0 /\ viol = {}
Step ==
  /\ l < Len(TraceLog) /\ l' = l + 1
  /\ LET e == TraceLog[l + 1] IN
     /\ viol' = IF e.ev = "Reset" THEN viol ELSE viol \cup
          {<<l + 1, n>> : n \in
             (IF P(e)!C30_ReaderChecksum THEN {} ELSE {"C30_ReaderChecksum"}) \cup
             (IF P(e)!C30_ReaderSize THEN {} ELSE {"C30_ReaderSize"}) \cup
             (IF P(e)!C30_ServeSha THEN {} ELSE {"C30_ServeSha"}) \cup
             (IF P(e)!C30_ServeSize THEN {} ELSE {"C30_ServeSize"})}
     /\ (l' = Len(TraceLog)) => PrintT(<<"OBS", ToJson([consumed |-> l', viol |-> viol'])>>)
OSpec == OInit /\ [][Step]_ovars
====
