package main

// Verification harness for C30, download endpoint (injected with `go test -overlay`; not part of the
// repository).  Runs every TLC-enumerated case through the real handleHTTPDownload (stream mode) with a
// fake s3API and records the request and the HTTP response as ndjson.

import (
	"bufio"
	"bytes"
	"context"
	"crypto/md5"
	"crypto/sha256"
	"encoding/hex"
	"encoding/json"
	"errors"
	"hash/crc32"
	"io"
	"log/slog"
	"math/rand"
	"net/http"
	"net/http/httptest"
	"os"
	"sync/atomic"
	"testing"
	"time"

	"github.com/aws/aws-sdk-go-v2/service/s3"
)

type vfdCase struct {
	Entry    string `json:"entry"`
	Alg      string `json:"alg"`
	Ck       string `json:"ck"`
	Sha      string `json:"sha"`
	Stored   string `json:"stored"`
	Validate bool   `json:"validate"`
	Max      int    `json:"max"`
	Dsz      int    `json:"dsz"`
	Fetch    string `json:"fetch"`
}

type vfdSched struct {
	Entry string    `json:"entry"`
	Unit  int       `json:"unit"`
	Seed  int64     `json:"seed"`
	Cases []vfdCase `json:"cases"`
}

type vfdS3 struct {
	obj   []byte
	flaky []byte // when set: the first GetObject delivers these bytes and then fails with a non-EOF read error
	gets  int
}

// vfdFlakyBody delivers its bytes and then a connection-reset style error instead of io.EOF.
type vfdFlakyBody struct{ r *bytes.Reader }

func (b *vfdFlakyBody) Read(p []byte) (int, error) {
	n, err := b.r.Read(p)
	if err == io.EOF {
		return n, errors.New("verif fake s3: read tcp: connection reset by peer")
	}
	return n, err
}
func (b *vfdFlakyBody) Close() error { return nil }

var errVfdUnused = errors.New("verif fake s3: operation not expected on the download path")

func (f *vfdS3) GetObject(ctx context.Context, in *s3.GetObjectInput, _ ...func(*s3.Options)) (*s3.GetObjectOutput, error) {
	f.gets++
	if f.flaky != nil && f.gets == 1 {
		n := int64(len(f.obj))
		return &s3.GetObjectOutput{Body: &vfdFlakyBody{r: bytes.NewReader(f.flaky)}, ContentLength: &n}, nil
	}
	n := int64(len(f.obj))
	return &s3.GetObjectOutput{Body: io.NopCloser(bytes.NewReader(f.obj)), ContentLength: &n}, nil
}
func (f *vfdS3) CreateMultipartUpload(context.Context, *s3.CreateMultipartUploadInput, ...func(*s3.Options)) (*s3.CreateMultipartUploadOutput, error) {
	return nil, errVfdUnused
}
func (f *vfdS3) UploadPart(context.Context, *s3.UploadPartInput, ...func(*s3.Options)) (*s3.UploadPartOutput, error) {
	return nil, errVfdUnused
}
func (f *vfdS3) CompleteMultipartUpload(context.Context, *s3.CompleteMultipartUploadInput, ...func(*s3.Options)) (*s3.CompleteMultipartUploadOutput, error) {
	return nil, errVfdUnused
}
func (f *vfdS3) AbortMultipartUpload(context.Context, *s3.AbortMultipartUploadInput, ...func(*s3.Options)) (*s3.AbortMultipartUploadOutput, error) {
	return nil, errVfdUnused
}
func (f *vfdS3) PutObject(context.Context, *s3.PutObjectInput, ...func(*s3.Options)) (*s3.PutObjectOutput, error) {
	return nil, errVfdUnused
}
func (f *vfdS3) DeleteObject(context.Context, *s3.DeleteObjectInput, ...func(*s3.Options)) (*s3.DeleteObjectOutput, error) {
	return nil, errVfdUnused
}
func (f *vfdS3) HeadBucket(context.Context, *s3.HeadBucketInput, ...func(*s3.Options)) (*s3.HeadBucketOutput, error) {
	return &s3.HeadBucketOutput{}, nil
}
func (f *vfdS3) CreateBucket(context.Context, *s3.CreateBucketInput, ...func(*s3.Options)) (*s3.CreateBucketOutput, error) {
	return nil, errVfdUnused
}

func vfdHashes(b []byte) map[string]string {
	s := sha256.Sum256(b)
	m := md5.Sum(b)
	c := crc32.NewIEEE()
	c.Write(b)
	return map[string]string{"sha256": hex.EncodeToString(s[:]), "md5": hex.EncodeToString(m[:]), "crc32": hex.EncodeToString(c.Sum(nil))}
}

func vfdContents(unit int, seed int64) map[string][]byte {
	r := rand.New(rand.NewSource(seed))
	orig := make([]byte, 4*unit)
	r.Read(orig)
	tamper := append([]byte(nil), orig...)
	tamper[r.Intn(len(tamper))] ^= byte(1 + r.Intn(255))
	extra := make([]byte, 2*unit)
	r.Read(extra)
	junk := make([]byte, 4*unit)
	r.Read(junk)
	return map[string][]byte{"orig": orig, "tamper": tamper, "trunc": orig[:2*unit], "ext": append(append([]byte(nil), orig...), extra...), "empty": {}, "junk": junk}
}

func vfdIdentify(cont map[string][]byte, b []byte) string {
	for _, id := range []string{"orig", "tamper", "trunc", "ext", "empty"} {
		if bytes.Equal(cont[id], b) {
			return id
		}
	}
	return "foreign"
}

func vfdRef(cont map[string][]byte, ref, stored string) []byte {
	switch ref {
	case "orig":
		return cont["orig"]
	case "stored":
		return cont[stored]
	}
	return cont["junk"]
}

func TestVerifLfsDownload(t *testing.T) {
	in, outPath := os.Getenv("VERIF_SCHEDULES"), os.Getenv("VERIF_TRACE_OUT")
	if in == "" || outPath == "" {
		t.Skip("no schedules")
	}
	f, err := os.Open(in)
	if err != nil {
		t.Fatal(err)
	}
	defer f.Close()
	out, err := os.Create(outPath)
	if err != nil {
		t.Fatal(err)
	}
	defer out.Close()
	w := bufio.NewWriter(out)
	defer w.Flush()
	emit := func(m map[string]any) {
		b, _ := json.Marshal(m)
		w.Write(b)
		w.WriteByte('\n')
	}
	logger := slog.New(slog.NewTextHandler(io.Discard, nil))
	sc := bufio.NewScanner(f)
	sc.Buffer(make([]byte, 1<<20), 1<<28)
	n := 0
	for sc.Scan() {
		var s vfdSched
		if err := json.Unmarshal(sc.Bytes(), &s); err != nil {
			t.Fatal(err)
		}
		cont := vfdContents(s.Unit, s.Seed)
		seen := map[string]string{}
		for id, b := range cont {
			h := vfdHashes(b)["sha256"]
			if other, dup := seen[h]; dup {
				t.Fatalf("contents %s and %s coincide: choose another seed", id, other)
			}
			seen[h] = id
		}
		emit(map[string]any{"ev": "Reset", "entry": s.Entry, "unit": s.Unit, "sched": n})
		for _, c := range s.Cases {
			if c.Entry != "download" {
				t.Fatalf("unexpected entry %q", c.Entry)
			}
			fs3 := &vfdS3{obj: cont[c.Stored]}
			switch c.Fetch {
			case "flaky_orig":
				fs3.flaky = cont["orig"][:s.Unit]
			case "flaky_foreign":
				fs3.flaky = cont["junk"][:s.Unit]
			case "clean", "":
			default:
				t.Fatalf("unknown fetch behaviour %q", c.Fetch)
			}
			m := &lfsModule{
				logger:           logger,
				s3Uploader:       &s3Uploader{bucket: "verif-bucket", region: "us-east-1", chunkSize: 5 << 20, api: fs3},
				s3Bucket:         "verif-bucket",
				s3Namespace:      "verif-ns",
				maxBlob:          int64(c.Max * s.Unit),
				chunkSize:        5 << 20,
				checksumAlg:      "sha256",
				proxyID:          "verif-proxy",
				metrics:          newLfsMetrics(),
				tracker:          &LfsOpsTracker{config: TrackerConfig{}, logger: logger},
				topicMaxLength:   249,
				downloadTTLMax:   2 * time.Minute,
				uploadSessionTTL: time.Hour,
				uploadSessions:   make(map[string]*uploadSession),
			}
			atomic.StoreUint32(&m.s3Healthy, 1)
			sha := vfdHashes(vfdRef(cont, c.Sha, c.Stored))["sha256"]
			body, _ := json.Marshal(lfsDownloadRequest{
				Bucket: "verif-bucket", Key: "verif-ns/topic/lfs/2026/01/01/obj-x", Mode: "stream",
				Integrity: &lfsIntegrityRequest{SHA256: sha, ChecksumAlg: c.Alg, Size: int64(c.Dsz * s.Unit)},
			})
			req := httptest.NewRequest(http.MethodPost, "/lfs/download", bytes.NewReader(body))
			rr := httptest.NewRecorder()
			m.lfsCORSMiddleware(m.handleHTTPDownload)(rr, req)
			got := rr.Body.Bytes()
			stored := cont[c.Stored]
			// bytes were sent to the client: a success status, or the object's bytes inside any other response
			ret := rr.Code == http.StatusOK || (len(stored) > 0 && bytes.Contains(got, stored)) || (len(fs3.flaky) >= 16 && bytes.Contains(got, fs3.flaky))
			o := map[string]any{"ret": ret, "blob": "none", "status": rr.Code, "bsize": 0, "bhash": map[string]string{"sha256": "", "md5": "", "crc32": ""}, "gets": fs3.gets}
			if ret {
				sent := got
				if rr.Code != http.StatusOK {
					sent = stored
					if !(len(stored) > 0 && bytes.Contains(got, stored)) {
						sent = fs3.flaky
					}
				}
				o["blob"], o["bsize"], o["bhash"] = vfdIdentify(cont, sent), len(sent), vfdHashes(sent)
			}
			emit(map[string]any{"ev": "Case", "c": c,
				"p":   map[string]any{"alg": c.Alg, "ck": "", "sha": sha, "validate": true, "max": c.Max * s.Unit, "supSize": c.Dsz * s.Unit},
				"out": o})
		}
		n++
	}
	t.Logf("replayed %d schedules", n)
}
