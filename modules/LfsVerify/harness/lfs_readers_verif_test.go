package lfs

// Verification harness for C30 (injected with `go test -overlay`; not part of the repository).
// Runs every TLC-enumerated case through the real Resolver.Resolve / Consumer.Unwrap, with the
// real S3Client on top of a fake s3API, and records input and result as ndjson.

import (
	"bufio"
	"bytes"
	"context"
	"crypto/md5"
	"crypto/sha256"
	"encoding/hex"
	"encoding/json"
	"hash/crc32"
	"io"
	"math/rand"
	"os"
	"testing"

	"github.com/aws/aws-sdk-go-v2/service/s3"
)

type vfCase struct {
	Entry    string `json:"entry"`
	Alg      string `json:"alg"`
	Ck       string `json:"ck"`
	Sha      string `json:"sha"`
	Stored   string `json:"stored"`
	Validate bool   `json:"validate"`
	Max      int    `json:"max"`
	Dsz      int    `json:"dsz"`
	Fetch    string `json:"fetch"`
}

type vfSched struct {
	Entry string   `json:"entry"`
	Unit  int      `json:"unit"`
	Seed  int64    `json:"seed"`
	Cases []vfCase `json:"cases"`
}

type vfS3 struct{ obj []byte }

func (f *vfS3) GetObject(ctx context.Context, in *s3.GetObjectInput, _ ...func(*s3.Options)) (*s3.GetObjectOutput, error) {
	n := int64(len(f.obj))
	return &s3.GetObjectOutput{Body: io.NopCloser(bytes.NewReader(f.obj)), ContentLength: &n}, nil
}

func vfHashes(b []byte) map[string]string {
	s := sha256.Sum256(b)
	m := md5.Sum(b)
	c := crc32.NewIEEE()
	c.Write(b)
	return map[string]string{"sha256": hex.EncodeToString(s[:]), "md5": hex.EncodeToString(m[:]), "crc32": hex.EncodeToString(c.Sum(nil))}
}

// vfContents builds the concrete objects: sizes 4,4,2,6,0 units.
func vfContents(unit int, seed int64) map[string][]byte {
	r := rand.New(rand.NewSource(seed))
	orig := make([]byte, 4*unit)
	r.Read(orig)
	tamper := append([]byte(nil), orig...)
	tamper[r.Intn(len(tamper))] ^= byte(1 + r.Intn(255))
	extra := make([]byte, 2*unit)
	r.Read(extra)
	junk := make([]byte, 4*unit)
	r.Read(junk)
	return map[string][]byte{"orig": orig, "tamper": tamper, "trunc": orig[:2*unit], "ext": append(append([]byte(nil), orig...), extra...), "empty": {}, "junk": junk}
}

func vfIdentify(cont map[string][]byte, b []byte) string {
	for _, id := range []string{"orig", "tamper", "trunc", "ext", "empty"} {
		if bytes.Equal(cont[id], b) {
			return id
		}
	}
	return "foreign"
}

func vfRef(cont map[string][]byte, ref, stored string) []byte {
	switch ref {
	case "orig":
		return cont["orig"]
	case "stored":
		return cont[stored]
	}
	return cont["junk"]
}

// vfPresented derives the envelope fields the producer side would have written for the abstract case.
func vfPresented(cont map[string][]byte, c vfCase) (ck, sha string) {
	sha = vfHashes(vfRef(cont, c.Sha, c.Stored))["sha256"]
	if c.Ck != "absent" {
		a := c.Alg
		if a != "md5" && a != "crc32" {
			a = "sha256"
		}
		ck = vfHashes(vfRef(cont, c.Ck, c.Stored))[a]
	}
	return
}

func TestVerifLfsReaders(t *testing.T) {
	in, outPath := os.Getenv("VERIF_SCHEDULES"), os.Getenv("VERIF_TRACE_OUT")
	if in == "" || outPath == "" {
		t.Skip("no schedules")
	}
	f, err := os.Open(in)
	if err != nil {
		t.Fatal(err)
	}
	defer f.Close()
	out, err := os.Create(outPath)
	if err != nil {
		t.Fatal(err)
	}
	defer out.Close()
	w := bufio.NewWriter(out)
	defer w.Flush()
	emit := func(m map[string]any) {
		b, _ := json.Marshal(m)
		w.Write(b)
		w.WriteByte('\n')
	}
	sc := bufio.NewScanner(f)
	sc.Buffer(make([]byte, 1<<20), 1<<28)
	n := 0
	for sc.Scan() {
		var s vfSched
		if err := json.Unmarshal(sc.Bytes(), &s); err != nil {
			t.Fatal(err)
		}
		cont := vfContents(s.Unit, s.Seed)
		seen := map[string]string{}
		for id, b := range cont {
			for a, h := range vfHashes(b) {
				if other, dup := seen[a+h]; dup {
					t.Fatalf("checksum collision between %s and %s under %s: choose another seed", id, other, a)
				}
				seen[a+h] = id
			}
		}
		emit(map[string]any{"ev": "Reset", "entry": s.Entry, "unit": s.Unit, "sched": n})
		for _, c := range s.Cases {
			ck, sha := vfPresented(cont, c)
			env := Envelope{Version: 1, Bucket: "verif-bucket", Key: "ns/topic/lfs/2026/01/01/obj-x", Size: int64(c.Dsz * s.Unit),
				SHA256: sha, Checksum: ck, ChecksumAlg: c.Alg, ContentType: "application/octet-stream"}
			value, err := json.Marshal(env)
			if err != nil {
				t.Fatal(err)
			}
			if !IsLfsEnvelope(value) {
				t.Fatalf("harness envelope not recognised: %s", value)
			}
			client := &S3Client{bucket: "verif-bucket", api: &vfS3{obj: cont[c.Stored]}}
			var blob []byte
			ret := false
			switch c.Entry {
			case "resolve":
				r := NewResolver(ResolverConfig{MaxSize: int64(c.Max * s.Unit), ValidateChecksum: c.Validate}, client)
				rec, isEnv, err := r.Resolve(context.Background(), value)
				if !isEnv {
					t.Fatalf("Resolve did not treat the value as an envelope")
				}
				if err == nil {
					ret, blob = true, rec.Payload
				}
			case "unwrap":
				cons := NewConsumer(client, WithChecksumValidation(c.Validate))
				e, b, err := cons.Unwrap(context.Background(), value)
				if err == nil {
					if e == nil {
						t.Fatalf("Unwrap did not treat the value as an envelope")
					}
					ret, blob = true, b
				} else if b != nil {
					ret, blob = true, b // bytes handed back together with an error still count as returned
				}
			default:
				t.Fatalf("unknown entry %q", c.Entry)
			}
			o := map[string]any{"ret": ret, "blob": "none", "status": 1, "bsize": 0, "bhash": map[string]string{"sha256": "", "md5": "", "crc32": ""}}
			if ret {
				o["blob"], o["status"], o["bsize"], o["bhash"] = vfIdentify(cont, blob), 0, len(blob), vfHashes(blob)
			}
			emit(map[string]any{"ev": "Case", "c": c,
				"p":   map[string]any{"alg": c.Alg, "ck": ck, "sha": sha, "validate": c.Validate, "max": c.Max * s.Unit, "supSize": c.Dsz * s.Unit},
				"out": o})
		}
		n++
	}
	t.Logf("replayed %d schedules", n)
}
