package main

// Verification harness for C30, concurrent downloads of one envelope (LfsDlConc.tla).  Injected together
// with lfs_download_verif_test.go (shares its fake s3API and digest helpers).  Each request runs the real
// handleHTTPDownload in its own goroutine against a response writer that parks after the first body write of
// a 200 response (a slow client) until the schedule says Finish; the harness replaces the bucket object
// between steps as scheduled and records what every request actually sent.

import (
	"bufio"
	"bytes"
	"encoding/json"
	"io"
	"log/slog"
	"net/http"
	"net/http/httptest"
	"os"
	"sync"
	"sync/atomic"
	"testing"
	"time"
)

type vfcStep struct {
	A string `json:"a"`
	R int    `json:"r"`
	C string `json:"c"`
}

type vfcSched struct {
	Unit  int       `json:"unit"`
	Seed  int64     `json:"seed"`
	Steps []vfcStep `json:"steps"`
}

// vfcSlowClient: the first body write of a 200 response parks until released.
type vfcSlowClient struct {
	hdr        http.Header
	status     int
	body       bytes.Buffer
	firstLen   int
	once       sync.Once
	firstWrite chan struct{}
	release    chan struct{}
}

func newVfcSlowClient() *vfcSlowClient {
	return &vfcSlowClient{hdr: http.Header{}, firstWrite: make(chan struct{}), release: make(chan struct{})}
}

func (c *vfcSlowClient) Header() http.Header  { return c.hdr }
func (c *vfcSlowClient) WriteHeader(code int) {
	if c.status == 0 {
		c.status = code
	}
}
func (c *vfcSlowClient) Write(p []byte) (int, error) {
	if c.status == 0 {
		c.status = http.StatusOK
	}
	n, err := c.body.Write(p)
	if c.status == http.StatusOK {
		c.once.Do(func() {
			c.firstLen = n
			close(c.firstWrite)
			<-c.release
		})
	}
	return n, err
}

type vfcReq struct {
	w    *vfcSlowClient
	done chan struct{}
}

func TestVerifLfsDlConc(t *testing.T) {
	in, outPath := os.Getenv("VERIF_CONC_SCHEDULES"), os.Getenv("VERIF_CONC_TRACE_OUT")
	if in == "" || outPath == "" {
		t.Skip("no schedules")
	}
	f, err := os.Open(in)
	if err != nil {
		t.Fatal(err)
	}
	defer f.Close()
	out, err := os.Create(outPath)
	if err != nil {
		t.Fatal(err)
	}
	defer out.Close()
	wr := bufio.NewWriter(out)
	defer wr.Flush()
	emit := func(m map[string]any) {
		b, _ := json.Marshal(m)
		wr.Write(b)
		wr.WriteByte('\n')
	}
	logger := slog.New(slog.NewTextHandler(io.Discard, nil))
	sc := bufio.NewScanner(f)
	sc.Buffer(make([]byte, 1<<20), 1<<26)
	n := 0
	for sc.Scan() {
		var s vfcSched
		if err := json.Unmarshal(sc.Bytes(), &s); err != nil {
			t.Fatal(err)
		}
		cont := vfdContents(s.Unit, s.Seed) // orig/tamper: 4 units; junk: 4 units of unrelated bytes
		orig := cont["orig"]
		objects := map[string][]byte{"orig": orig, "tamper": cont["junk"], "trunc": orig[:s.Unit]}
		fs3 := &vfdS3{obj: objects["orig"]}
		var s3mu sync.Mutex
		m := &lfsModule{
			logger:           logger,
			s3Uploader:       &s3Uploader{bucket: "verif-bucket", region: "us-east-1", chunkSize: 5 << 20, api: fs3},
			s3Bucket:         "verif-bucket",
			s3Namespace:      "verif-ns",
			maxBlob:          0,
			chunkSize:        5 << 20,
			checksumAlg:      "sha256",
			proxyID:          "verif-proxy",
			metrics:          newLfsMetrics(),
			tracker:          &LfsOpsTracker{config: TrackerConfig{}, logger: logger},
			topicMaxLength:   249,
			downloadTTLMax:   2 * time.Minute,
			uploadSessionTTL: time.Hour,
			uploadSessions:   make(map[string]*uploadSession),
		}
		atomic.StoreUint32(&m.s3Healthy, 1)
		sha := vfdHashes(orig)["sha256"]
		reqBody, _ := json.Marshal(lfsDownloadRequest{
			Bucket: "verif-bucket", Key: "verif-ns/topic/lfs/2026/01/01/obj-conc", Mode: "stream",
			Integrity: &lfsIntegrityRequest{SHA256: sha, ChecksumAlg: "sha256", Size: int64(len(orig))},
		})
		p := map[string]any{"alg": "sha256", "ck": "", "sha": sha, "validate": true, "max": 0, "supSize": len(orig)}
		reqs := map[int]*vfcReq{}
		// chunk identity: which object's bytes at the same offsets
		ident := func(b []byte, off int) string {
			if len(b) == 0 {
				return "none"
			}
			for _, id := range []string{"orig", "tamper", "trunc"} {
				o := objects[id]
				if off <= len(o) && bytes.Equal(o[off:], b) {
					return id
				}
				if off == 0 && len(b) <= len(o) && id != "trunc" && bytes.Equal(o[:len(b)], b) {
					return id
				}
			}
			return "foreign"
		}
		observe := func(r *vfcReq) map[string]any {
			got := r.w.body.Bytes()
			s3mu.Lock()
			stored := fs3.obj
			s3mu.Unlock()
			ret := r.w.status == http.StatusOK || (len(stored) > 0 && bytes.Contains(got, stored))
			o := map[string]any{"ret": ret, "status": r.w.status, "bsize": 0, "bhash": map[string]string{"sha256": "", "md5": "", "crc32": ""}}
			if ret {
				o["bsize"], o["bhash"] = len(got), vfdHashes(got)
			}
			return o
		}
		emit(map[string]any{"ev": "Reset", "sched": n, "unit": s.Unit, "done": false})
		for _, st := range s.Steps {
			switch st.A {
			case "Replace":
				s3mu.Lock()
				fs3.obj = objects[st.C]
				s3mu.Unlock()
				emit(map[string]any{"ev": "Replace", "c": st.C, "done": false})
			case "Start":
				r := &vfcReq{w: newVfcSlowClient(), done: make(chan struct{})}
				reqs[st.R] = r
				go func() {
					defer close(r.done)
					m.lfsCORSMiddleware(m.handleHTTPDownload)(r.w, httptest.NewRequest(http.MethodPost, "/lfs/download", bytes.NewReader(reqBody)))
				}()
				line := map[string]any{"ev": "Start", "r": st.R}
				select {
				case <-r.w.firstWrite: // verified, headers and first chunk sent, now waiting for the slow client
					if r.w.firstLen >= len(orig) {
						t.Fatalf("whole body of %d bytes sent in one write: the gate is not inside the body (raise the unit)", len(orig))
					}
					line["status"], line["first"], line["done"] = r.w.status, ident(r.w.body.Bytes(), 0), false
				case <-r.done:
					line["status"], line["first"], line["done"] = r.w.status, "none", true
					line["p"], line["out"] = p, observe(r)
				case <-time.After(120 * time.Second):
					t.Fatalf("download %d neither started streaming nor finished", st.R)
				}
				emit(line)
			case "Finish":
				r := reqs[st.R]
				if r == nil {
					t.Fatalf("Finish of a request that was not started")
				}
				close(r.w.release)
				select {
				case <-r.done:
				case <-time.After(120 * time.Second):
					t.Fatalf("download %d did not finish", st.R)
				}
				got := r.w.body.Bytes()
				first := got
				rest := []byte{}
				if r.w.firstLen <= len(got) {
					first, rest = got[:r.w.firstLen], got[r.w.firstLen:]
				}
				emit(map[string]any{"ev": "Finish", "r": st.R, "status": r.w.status, "done": true,
					"sent": []string{ident(first, 0), ident(rest, r.w.firstLen)}, "p": p, "out": observe(r)})
			default:
				t.Fatalf("unknown step %q", st.A)
			}
		}
		// release whatever the schedule left parked so no goroutine outlives the schedule
		for _, r := range reqs {
			select {
			case <-r.done:
			default:
				select {
				case <-r.w.release:
				default:
					close(r.w.release)
				}
				<-r.done
			}
		}
		n++
	}
	t.Logf("replayed %d conc schedules", n)
}
