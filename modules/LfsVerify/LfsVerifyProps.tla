---- MODULE LfsVerifyProps ----
(* C30 stated once, over parameters.  LfsVerify.tla instantiates it with the model's abstract   *)
(* values (hashes are strings "alg:content"), Obs_LfsVerify.tla with the concrete values the    *)
(* harness presented to / observed from Resolver.Resolve, Consumer.Unwrap, handleHTTPDownload   *)
(* (hashes are lowercase hex strings, sizes are bytes).                                         *)
EXTENDS Integers
CONSTANTS entry,     \* "resolve" | "unwrap" | "download"
          alg,       \* algorithm name as written in the envelope / request ("" = not given)
          ck,        \* envelope `checksum` field as written ("" = absent)
          sha,       \* envelope `sha256` field as written (always present: mandatory field)
          validate,  \* checksum validation switched on (readers)
          max,       \* configured size limit of the reader (0 = none)
          supSize,   \* size the caller supplied (download endpoint)
          ret,       \* TRUE iff a blob was returned to the caller / bytes were sent to the client
          bsize,     \* size of that blob
          bhash      \* [sha256 |-> .., md5 |-> .., crc32 |-> ..] : checksums of that blob

Readers == {"resolve", "unwrap"}
\* Effective-algorithm rules (pkg/lfs/checksum.go EnvelopeChecksum): empty algorithm means sha256; "none" declares
\* nothing; a `checksum` field, when present, is under the named algorithm; without it the mandatory `sha256`
\* field is what the envelope declares (also for md5/crc32: backward-compatibility fallback).
Norm == IF alg = "" THEN "sha256" ELSE alg
Known == Norm \in {"sha256", "md5", "crc32", "none"}
Declares == Known /\ Norm # "none"
EffAlg == IF ck # "" THEN Norm ELSE "sha256"
EffVal == IF ck # "" THEN ck ELSE sha

\* a reader with validation on returns a blob only if the blob's checksum equals the declared one
\* (an unknown algorithm can never be matched)
C30_ReaderChecksum == (entry \in Readers /\ ret /\ validate) => (Known /\ (Declares => bhash[EffAlg] = EffVal))
\* ... and only if it is within the configured size limit
C30_ReaderSize == (entry \in Readers /\ ret /\ max > 0) => bsize <= max
\* the download endpoint sends bytes only if their SHA-256 and size match what the caller supplied
C30_ServeSha == (entry = "download" /\ ret) => bhash["sha256"] = sha
C30_ServeSize == (entry = "download" /\ ret) => bsize = supSize
====
