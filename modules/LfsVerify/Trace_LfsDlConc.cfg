CONSTANTS
 MaxOps = 1000000
 DevSharedBuffer = FALSE
INIT TInit
NEXT TNext
POSTCONDITION Reached
CHECK_DEADLOCK FALSE
