---- MODULE Trace_LfsDlConc ----
(* Conformance layer: each recorded step (Start / Finish of a request, Replace of the object) must *)
(* be the model's step with the same status and the same chunk identities sent.                    *)
EXTENDS LfsDlConc
TraceLog == ndJsonDeserialize("trace.ndjson")
VARIABLE l
tvars == <<vars, l>>
E == TraceLog[l]
Cur(ev) == l <= Len(TraceLog) /\ E.ev = ev /\ l' = l + 1
TInit == Init /\ l = 1 /\ TLCSet(7, 0)
TReset == /\ Cur("Reset") /\ stored' = "orig" /\ st' = [r \in R |-> "idle"] /\ status' = [r \in R |-> 0]
          /\ buf' = [r \in R |-> Empty] /\ shared' = Empty /\ sent' = [r \in R |-> Empty] /\ hist' = <<>>
TStart == /\ Cur("Start") /\ Start(E.r) /\ status'[E.r] = E.status
          /\ (E.status = 200 => sent'[E.r][1] = E.first) /\ (E.done <=> st'[E.r] = "done")
TFinish == Cur("Finish") /\ Finish(E.r) /\ status'[E.r] = E.status /\ sent'[E.r] = E.sent
TReplace == Cur("Replace") /\ Replace(E.c)
Consumed == TLCSet(7, IF TLCGet(7) < l THEN l ELSE TLCGet(7))
TNext == (TReset \/ TStart \/ TFinish \/ TReplace) /\ Consumed
TSpec == TInit /\ [][TNext]_tvars
Reached == PrintT(<<"CONF", ToJson([reached |-> TLCGet(7), total |-> Len(TraceLog)])>>)
====
