CONSTANTS
 FixSizeEq = TRUE
 DevNoShaCheck = FALSE
 DevNoFallback = FALSE
 DevSkipMax = FALSE
 DevUnwrapNoAlgCheck = FALSE
 DevRetryKeepsBuffer = FALSE
INIT Init
NEXT Next
INVARIANTS EmitSched C30_ReaderChecksum C30_ReaderSize C30_ServeSha C30_ServeSize HonestDelivered
VIEW View
CHECK_DEADLOCK FALSE
