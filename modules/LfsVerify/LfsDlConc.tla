---- MODULE LfsDlConc ----
(* C30, download endpoint under concurrency (extension of LfsVerify.tla, which is function level). *)
(* Two stream-mode /lfs/download requests carry the same envelope (digest and size of the original *)
(* blob); the bucket object may be replaced at any time.  streamDownloadWithVerify works in two    *)
(* observable stages: Start(r) = fetch into the verification buffer, compare size and SHA-256,     *)
(* then either refuse (502) or send the headers and the first copy chunk to the client; a slow     *)
(* client makes the handler wait there; Finish(r) = the remaining chunks are copied from the       *)
(* buffer.  A blob is modelled as <<first chunk, rest>> of content ids.  The buffer is private to  *)
(* the request (os.CreateTemp); DevSharedBuffer models a buffer file named after the envelope      *)
(* digest, which every in-flight request for that envelope truncates and rewrites.                 *)
EXTENDS Integers, Sequences, FiniteSets, TLC, Json
CONSTANTS MaxOps, DevSharedBuffer
VARIABLES stored, st, status, buf, shared, sent, hist
vars == <<stored, st, status, buf, shared, sent, hist>>
R == {1, 2}
Blob(c) == CASE c = "orig" -> <<"orig", "orig">> [] c = "tamper" -> <<"tamper", "tamper">> [] c = "trunc" -> <<"trunc", "none">>
Empty == <<"none", "none">>
Verified(c) == c = "orig"            \* same-size tamper fails the digest, the truncated object fails the size
ChunkSize(x) == CASE x = "none" -> 0 [] x = "trunc" -> 1 [] OTHER -> 2
SizeOf(b) == ChunkSize(b[1]) + ChunkSize(b[2])
Id(b) == IF b[1] = b[2] THEN b[1] ELSE b[1] \o "+" \o b[2]
HashAlgs == {"sha256", "md5", "crc32"}

Init == /\ stored = "orig" /\ st = [r \in R |-> "idle"] /\ status = [r \in R |-> 0]
        /\ buf = [r \in R |-> Empty] /\ shared = Empty /\ sent = [r \in R |-> Empty] /\ hist = <<>>
Step(rec) == Len(hist) < MaxOps /\ hist' = Append(hist, rec)

Start(r) ==
  /\ st[r] = "idle" /\ Step([a |-> "Start", r |-> r])
  /\ IF DevSharedBuffer THEN shared' = Blob(stored) /\ UNCHANGED buf
                        ELSE buf' = [buf EXCEPT ![r] = Blob(stored)] /\ UNCHANGED shared
  /\ IF Verified(stored)
     THEN /\ status' = [status EXCEPT ![r] = 200] /\ st' = [st EXCEPT ![r] = "streaming"]
          /\ sent' = [sent EXCEPT ![r] = <<Blob(stored)[1], "none">>]
     ELSE /\ status' = [status EXCEPT ![r] = 502] /\ st' = [st EXCEPT ![r] = "done"] /\ UNCHANGED sent
  /\ UNCHANGED stored
Finish(r) ==
  /\ st[r] = "streaming" /\ Step([a |-> "Finish", r |-> r])
  /\ sent' = [sent EXCEPT ![r] = <<sent[r][1], (IF DevSharedBuffer THEN shared ELSE buf[r])[2]>>]
  /\ st' = [st EXCEPT ![r] = "done"]
  /\ UNCHANGED <<stored, status, buf, shared>>
Replace(c) ==
  /\ c # stored /\ \E r \in R : st[r] # "done"
  /\ stored' = c /\ Step([a |-> "Replace", c |-> c])
  /\ UNCHANGED <<st, status, buf, shared, sent>>
Next == \/ \E r \in R : Start(r) \/ Finish(r)
        \/ \E c \in {"orig", "tamper", "trunc"} : Replace(c)
Spec == Init /\ [][Next]_vars

P(r) == INSTANCE LfsVerifyProps WITH
      entry <- "download", alg <- "", ck <- "", sha <- "sha256:orig", validate <- TRUE, max <- 0, supSize <- 4,
      ret <- (st[r] = "done" /\ status[r] = 200), bsize <- SizeOf(sent[r]),
      bhash <- [a \in HashAlgs |-> a \o ":" \o Id(sent[r])]
C30_ServeSha == \A r \in R : P(r)!C30_ServeSha
C30_ServeSize == \A r \in R : P(r)!C30_ServeSize
View == <<stored, st, status, buf, shared, sent, Len(hist)>>
EmitSched == PrintT(<<"SCHED", ToJson(hist)>>)
====
