---- MODULE LfsVerify ----
(* C30, function level (DESIGN 3.3).  The three read paths of the LFS subsystem transcribed as   *)
(* functions of an abstract case:                                                               *)
(*   resolve   pkg/lfs/resolver.go  Resolver.Resolve   (size limit, EnvelopeChecksum, compare)  *)
(*   unwrap    pkg/lfs/consumer.go  Consumer.Unwrap    (EnvelopeChecksum only when validating)  *)
(*   download  cmd/proxy/lfs_http.go handleHTTPDownload + streamDownloadWithVerify (stream mode) *)
(* One action Pick(c) per case of the bounded domain; TLC visits every case and checks the C30   *)
(* predicates on the transcription's result (theorem about the design); the same cases are run  *)
(* through the real functions and the predicates are evaluated on the real results (layer O).   *)
(* Contents are abstract ids, a checksum is the string "alg:content" (collision-free hashing).  *)
EXTENDS Integers, Sequences, FiniteSets, TLC, Json
CONSTANTS FixSizeEq,      \* TRUE: endpoint refuses when bytes read # supplied size (repaired tree); FALSE: only when more (pinned tree)
          DevNoShaCheck,  \* deviation: endpoint compares the byte count only
          DevNoFallback,  \* deviation: md5/crc32 envelope without `checksum` declares nothing (sha256 fallback dropped)
          DevSkipMax,     \* deviation: resolver ignores its size limit
          DevUnwrapNoAlgCheck, \* deviation: consumer treats an unknown algorithm as "nothing to verify"
          DevRetryKeepsBuffer  \* deviation: endpoint re-issues the GET after a mid-stream read error, resetting hash and count but not the buffer
VARIABLES cur, out, hist
vars == <<cur, out, hist>>

Contents == {"orig", "tamper", "trunc", "ext", "empty"}      \* what the storage returns for the key
Size(c) == CASE c = "orig" -> 4 [] c = "tamper" -> 4 [] c = "trunc" -> 2 [] c = "ext" -> 6 [] c = "empty" -> 0
Algs == {"", "sha256", "md5", "crc32", "none", "bogus"}
Refs == {"orig", "stored", "junk"}          \* whose checksum a field carries: the original's, the stored object's, something else
Maxes == {0, 3, 4}
HashAlgs == {"sha256", "md5", "crc32"}

\* fetch = how the storage delivers the object: "clean" = in one piece; "flaky_orig" / "flaky_foreign" = the first GetObject
\* delivers a non-empty prefix (of the original / of unrelated bytes) and then fails with a non-EOF read error, every later
\* GetObject delivers `stored` in one piece (download endpoint only)
ReaderCases(e) == [entry : {e}, alg : Algs, ck : Refs \cup {"absent"}, sha : Refs, stored : Contents,
                   validate : BOOLEAN, max : IF e = "resolve" THEN Maxes ELSE {0}, dsz : {4}, fetch : {"clean"}]
DownloadCases == [entry : {"download"}, alg : Algs, ck : {"absent"}, sha : Refs, stored : Contents,
                  validate : {TRUE}, max : Maxes, dsz : {2, 4, 6}, fetch : {"clean"}]
                 \cup [entry : {"download"}, alg : {"", "sha256"}, ck : {"absent"}, sha : Refs, stored : Contents,
                       validate : {TRUE}, max : {0}, dsz : {2, 4, 6}, fetch : {"flaky_orig", "flaky_foreign"}]
Domain == ReaderCases("resolve") \cup ReaderCases("unwrap") \cup DownloadCases

H(a, c) == a \o ":" \o c
RefId(r, stored) == IF r = "orig" THEN "orig" ELSE IF r = "stored" THEN stored ELSE "junk"
NormA(a) == IF a = "" THEN "sha256" ELSE a
\* values as written into the envelope / request by the producer side
CkAlg(c) == IF NormA(c.alg) \in HashAlgs THEN NormA(c.alg) ELSE "sha256"
CkVal(c) == IF c.ck = "absent" THEN "" ELSE H(CkAlg(c), RefId(c.ck, c.stored))
ShaVal(c) == H("sha256", RefId(c.sha, c.stored))
HashesOf(b) == [a \in HashAlgs |-> H(a, b)]
NoBlob == [ret |-> FALSE, blob |-> "none", status |-> 0]

\* pkg/lfs/checksum.go EnvelopeChecksum: <<error, algorithm, expected, ok>>
EnvelopeChecksum(c) ==
  LET a == NormA(c.alg) IN
  IF a \notin (HashAlgs \cup {"none"}) THEN <<TRUE, "", "", FALSE>>
  ELSE IF a = "none" THEN <<FALSE, a, "", FALSE>>
  ELSE IF CkVal(c) # "" THEN <<FALSE, a, CkVal(c), TRUE>>
  ELSE IF a = "sha256" \/ ~DevNoFallback THEN <<FALSE, "sha256", ShaVal(c), TRUE>>
  ELSE <<FALSE, a, "", FALSE>>

Resolve(c) ==
  IF ~DevSkipMax /\ c.max > 0 /\ Size(c.stored) > c.max THEN [NoBlob EXCEPT !.status = 1]
  ELSE LET ec == EnvelopeChecksum(c) IN
       IF ec[1] THEN [NoBlob EXCEPT !.status = 1]
       ELSE IF c.validate /\ ec[4] /\ H(ec[2], c.stored) # ec[3] THEN [NoBlob EXCEPT !.status = 1]
       ELSE [ret |-> TRUE, blob |-> c.stored, status |-> 0]

Unwrap(c) ==
  IF ~c.validate THEN [ret |-> TRUE, blob |-> c.stored, status |-> 0]
  ELSE LET ec == EnvelopeChecksum(c) IN
       IF ec[1] THEN (IF DevUnwrapNoAlgCheck THEN [ret |-> TRUE, blob |-> c.stored, status |-> 0] ELSE [NoBlob EXCEPT !.status = 1])
       ELSE IF ec[4] /\ H(ec[2], c.stored) # ec[3] THEN [NoBlob EXCEPT !.status = 1]
       ELSE [ret |-> TRUE, blob |-> c.stored, status |-> 0]

\* stream mode: request validation, then buffer at most supplied+1 bytes, compare count and SHA-256, then send
Download(c) ==
  IF NormA(c.alg) # "sha256" THEN [NoBlob EXCEPT !.status = 400]
  ELSE IF c.dsz <= 0 THEN [NoBlob EXCEPT !.status = 400]
  ELSE IF c.max > 0 /\ c.dsz > c.max THEN [NoBlob EXCEPT !.status = 400]
  ELSE IF c.fetch # "clean" /\ ~DevRetryKeepsBuffer THEN [NoBlob EXCEPT !.status = 502]     \* read error while buffering: s3_get_failed
  ELSE LET written == IF Size(c.stored) > c.dsz + 1 THEN c.dsz + 1 ELSE Size(c.stored)
           whole == written = Size(c.stored)            \* otherwise a strict prefix was hashed: matches nothing
       IN IF written > c.dsz THEN [NoBlob EXCEPT !.status = 502]
          ELSE IF FixSizeEq /\ written # c.dsz THEN [NoBlob EXCEPT !.status = 502]
          ELSE IF ~DevNoShaCheck /\ (~whole \/ H("sha256", c.stored) # ShaVal(c)) THEN [NoBlob EXCEPT !.status = 502]
          ELSE IF c.fetch # "clean" THEN [ret |-> TRUE, blob |-> "foreign", status |-> 200]   \* (deviation) stale prefix + object sent
          ELSE [ret |-> TRUE, blob |-> c.stored, status |-> 200]

SpecOut(c) == CASE c.entry = "resolve" -> Resolve(c) [] c.entry = "unwrap" -> Unwrap(c) [] c.entry = "download" -> Download(c)

None == [entry |-> "none"]
Init == cur = None /\ out = NoBlob /\ hist = <<>>
Apply(c) == /\ cur' = c /\ out' = SpecOut(c)
            /\ hist' = <<[a |-> "Case", c |-> c]>>
Pick(c) == cur = None /\ Apply(c)       \* one case per behaviour
Next == \E c \in Domain : Pick(c)
Spec == Init /\ [][Next]_vars

\* the property predicates on the transcription's own result
P == INSTANCE LfsVerifyProps WITH
       entry <- cur.entry, alg <- cur.alg, ck <- CkVal(cur), sha <- ShaVal(cur), validate <- cur.validate,
       max <- cur.max, supSize <- cur.dsz, ret <- out.ret,
       bsize <- IF out.ret THEN (IF out.blob \in Contents THEN Size(out.blob) ELSE Size(cur.stored) + 1) ELSE 0,
       bhash <- IF out.ret THEN HashesOf(out.blob) ELSE [a \in HashAlgs |-> ""]
Chosen == cur # None
C30_ReaderChecksum == Chosen => P!C30_ReaderChecksum
C30_ReaderSize == Chosen => P!C30_ReaderSize
C30_ServeSha == Chosen => P!C30_ServeSha
C30_ServeSize == Chosen => P!C30_ServeSize
\* sanity theorems (not part of the property): an honest object under a consistent envelope is delivered
HonestDelivered == (Chosen /\ cur.stored = "orig" /\ cur.ck \in {"absent", "orig", "stored"} /\ cur.sha \in {"orig", "stored"}
                    /\ cur.alg \in {"", "sha256"} /\ cur.max \in {0, 4} /\ cur.dsz = 4 /\ cur.fetch = "clean") => out.ret

View == <<cur, out>>
EmitSched == PrintT(<<"SCHED", ToJson(hist)>>)
====
