"""LfsVerify.tla — C30 (pkg/lfs resolver/consumer/checksum, cmd/proxy download endpoint). Function-level (DESIGN 3.3)."""
import copy, json, os, re
from lib import tlc as T, layers, gorun
from lib.common import Broken, Violation, verdict, save_replay

PROPS = {
    "C30": {
        "text": "LfsVerify.tla transcribes Resolver.Resolve, Consumer.Unwrap (with the EnvelopeChecksum effective-algorithm rules) and the stream-mode download endpoint as functions of an abstract case (algorithm name, checksum/sha256 fields carrying the original's, the stored object's or a foreign digest, supplied size, stored object original/tampered/truncated/extended/empty, storage delivering in one piece or failing mid-stream on the first GET, validate flag, size limit). TLC enumerates the whole bounded domain (3870 cases) and checks the C30 predicates on the transcription; every enumerated case is then run through the real functions on top of a fake s3API, and TLC evaluates the same predicates on the concrete results (hex checksums and byte counts of what was really returned/sent: layer O) and checks that each real result equals the transcription's (layer C).",
        "note": "Trusted: TLC, Go's crypto/sha256, crypto/md5, hash/crc32 (used by the harness to compute the digests of returned bytes independently of pkg/lfs), the fake s3API. The property is read with the effective-algorithm rules of checksum.go: algorithm 'none' declares nothing, a missing `checksum` field falls back to the mandatory `sha256` field, an unknown algorithm can never be matched. Presign mode sends no bytes and is out of scope.",
        "technique": "TLA+ transcription (LfsVerify.tla) + TLC exhaustive enumeration of the bounded input domain + every case run through the real Go functions + TLC evaluation of the property predicates on real results (observation layer) and of result equality (conformance layer)",
    }
}
DEVIATIONS = {  # cfg suffix -> invariant TLC must report
    "ShortServed": "C30_ServeSize", "NoShaCheck": "C30_ServeSha", "NoFallback": "C30_ReaderChecksum",
    "SkipMax": "C30_ReaderSize", "UnwrapNoAlgCheck": "C30_ReaderChecksum", "RetryKeepsBuffer": "C30_ServeSha",
}
INVS = ["C30_ReaderChecksum", "C30_ReaderSize", "C30_ServeSha", "C30_ServeSize"]
TARGETS = {
    "readers": ("./pkg/lfs/", {"pkg/lfs/zz_verif_lfsverify_test.go": "lfs_readers_verif_test.go"}, "^TestVerifLfsReaders$"),
    "download": ("./cmd/proxy/", {"cmd/proxy/zz_verif_lfsverify_test.go": "lfs_download_verif_test.go",
                                  "cmd/proxy/zz_verif_lfsdlconc_test.go": "lfs_dlconc_verif_test.go"}, "^(TestVerifLfsDownload|TestVerifLfsDlConc)$"),
}


def harness(ctx, which, scheds, tag, conc=None):
    """Runs one go test per package; the cmd/proxy run also replays the concurrent-download schedules (conc)."""
    pkg, files, test = TARGETS[which]
    sp = os.path.join(ctx.scratch, "sched-%s-%s.ndjson" % (which, tag))
    tp = os.path.join(ctx.scratch, "trace-%s-%s.ndjson" % (which, tag))
    gorun.write_ndjson(sp, scheds)
    env = {"VERIF_SCHEDULES": sp, "VERIF_TRACE_OUT": tp}
    if conc is not None:
        csp, ctp = sp.replace("sched-", "csched-"), tp.replace("trace-", "ctrace-")
        gorun.write_ndjson(csp, conc)
        env.update({"VERIF_CONC_SCHEDULES": csp, "VERIF_CONC_TRACE_OUT": ctp})
    rc, out = gorun.go_test(ctx, ".", pkg, {t: os.path.join(DIR, "harness", f) for t, f in files.items()}, test, env=env, timeout=900)
    if rc != 0 or (scheds and "replayed %d schedules" % len(scheds) not in out) or (conc is not None and "replayed %d conc schedules" % len(conc) not in out):
        raise Broken("%s harness failed:\n%s" % (which, out[-3000:]))
    rows = gorun.read_ndjson(tp) if scheds else []
    return (rows, gorun.read_ndjson(ctp)) if conc is not None else rows


def case_key(c):
    return json.dumps(c, sort_keys=True)


def sig_of(inv, ev):
    c, p, o = ev["c"], ev["p"], ev["out"]
    if inv == "C30_ServeSize":
        cls = "short" if o["bsize"] < p["supSize"] else "long"
    elif inv == "C30_ServeSha":
        cls = "stored=" + c["stored"]
    elif inv == "C30_ReaderChecksum":
        cls = "alg=%s,ck=%s" % (c["alg"] or "default", "absent" if c["ck"] == "absent" else "present")
    else:
        cls = "over_limit"
    if c.get("fetch", "clean") != "clean":
        cls += ",fetch=" + c["fetch"]
    return "%s@%s.%s" % (inv, c["entry"], cls)


def run_all(ctx, scheds, tag, conc=None):
    rows, crows = [], []
    rd = [s for s in scheds if s.get("entry") not in ("download", None)]
    dl = [s for s in scheds if s.get("entry") == "download"]
    if rd:
        rows += harness(ctx, "readers", rd, tag)
    if dl or conc is not None:
        r = harness(ctx, "download", dl, tag, conc=conc)
        if conc is not None:
            r, crows = r
        rows += r
    return (rows, crows) if conc is not None else rows


def maximal(hs):
    pref = set()
    for h in hs:
        for i in range(len(h)):
            pref.add(json.dumps(h[:i], sort_keys=True))
    out = {json.dumps(h, sort_keys=True): h for h in hs if h and json.dumps(h, sort_keys=True) not in pref}
    return [out[k] for k in sorted(out)]


def conc_schedules(ctx, d):
    """LfsDlConc.tla: two concurrent downloads of one envelope; one schedule per reachable model state + the deviation counterexample."""
    mc = T.model_check(ctx, d, "MC_LfsDlConc.tla", "MC_LfsDlConc.cfg", timeout=600, workers=1)
    hs = mc.prints.get("SCHED", [])
    if len(hs) != mc.distinct:
        raise Broken("LfsDlConc state cover incomplete: %d histories for %d states" % (len(hs), mc.distinct))
    h, r = T.counterexample_hist(ctx, d, "MC_LfsDlConc.tla", "Dev_LfsDlConc_SharedBuffer.cfg", timeout=300, workers=1)
    if h is None or "C30_ServeSha" not in r.violated:
        raise Broken("deviation SharedBuffer no longer violates C30_ServeSha in LfsDlConc (vacuous deviation)")
    steps = [h] + [x for x in maximal(hs) if x != h]
    units = [20000] if ctx.quick() else [20000, 50000]
    seeds = [ctx.seed] if ctx.quick() else [ctx.seed, ctx.seed + 7919]
    return mc, [{"unit": u, "seed": sd, "steps": st} for u in units for sd in seeds for st in steps], h


def conc_validate(ctx, prop, cscheds, crows):
    runs, cur = [], None
    for r in crows:
        if r["ev"] == "Reset":
            cur = []
            runs.append(cur)
        cur.append(r)
    if len(runs) != len(cscheds) or sum(len(r) - 1 for r in runs) != sum(len(s["steps"]) for s in cscheds):
        raise Broken("concurrent-download harness recorded %d runs for %d schedules" % (len(runs), len(cscheds)))
    overl = sum(1 for r in runs if any(e["ev"] == "Finish" and e["status"] == 200 for e in r) and sum(1 for e in r if e["ev"] == "Start") == 2)
    if overl == 0 or not any(e["ev"] == "Start" and e["status"] == 502 for e in crows):
        raise Broken("vacuous run: no schedule with two downloads and a streamed 200, or no refused download")
    _, viol, _ = layers.observe(ctx, DIR, "Obs_LfsDlConc.tla", "Obs_LfsDlConc.cfg", crows, name="cobs", timeout=600)
    violations, seen = [], set()
    for line, inv in sorted(viol):
        sig = "%s@download.concurrent_same_envelope" % inv
        if sig in seen:
            continue
        seen.add(sig)
        idx = sum(1 for r in crows[:line] if r["ev"] == "Reset") - 1
        ev = crows[line - 1]
        path = save_replay(prop, "conc-%s.json" % re.sub(r"\W", "_", sig), {"conc_schedule": cscheds[idx], "trace": runs[idx], "line": ev})
        violations.append(Violation(prop, sig, "%s false on the real download endpoint: request %s answered %d and the client received %d bytes with sha256 %s.. (envelope: %d bytes, %s..); chunks sent %s [schedule %s, replay %s]" % (
            inv, ev.get("r"), ev["status"], ev["out"]["bsize"], ev["out"]["bhash"]["sha256"][:12], ev["p"]["supSize"], ev["p"]["sha"][:12], ev.get("sent"), json.dumps(cscheds[idx]["steps"]), path),
            {"conc_schedule": cscheds[idx], "event": ev}))
    reached, total, _ = layers.conform(ctx, DIR, "Trace_LfsDlConc.tla", "Trace_LfsDlConc.cfg", crows, name="cconf", timeout=600)
    return violations, {"reached": reached, "total": total, "first_rejection": crows[reached] if reached != total and reached < len(crows) else None}, len(runs), overl


def check(ctx, prop):
    quick = ctx.quick()
    d = T.stage(ctx, DIR, "mc")
    mc = T.model_check(ctx, d, "MC_LfsVerify.tla", "MC_LfsVerify_%s.cfg" % ctx.tier, coverage=not quick, timeout=900, workers=1)
    cases = [h[0]["c"] for h in mc.prints.get("SCHED", []) if h]
    cases = sorted({case_key(c): c for c in cases}.values(), key=case_key)
    if len(cases) != mc.distinct - 1 or not cases:
        raise Broken("enumeration incomplete: %d cases printed for %d model states" % (len(cases), mc.distinct))
    ctx.log("model: %d distinct states; %d cases enumerated" % (mc.distinct, len(cases)))
    known = {case_key(c) for c in cases}
    dev_cases = {}
    for dev, inv in sorted(DEVIATIONS.items()):
        h, r = T.counterexample_hist(ctx, d, "MC_LfsVerify.tla", "Dev_LfsVerify_%s.cfg" % dev, timeout=300, workers=1)
        if h is None or inv not in r.violated:
            raise Broken("deviation %s no longer violates %s in the model (vacuous deviation)" % (dev, inv))
        c = h[0]["c"]
        if case_key(c) not in known:
            raise Broken("deviation %s counterexample is outside the enumerated domain" % dev)
        dev_cases[dev] = c
    units = [1, 9000] if quick else [1, 3, 9000, 70000]
    seeds = [ctx.seed] if quick else [ctx.seed, ctx.seed + 7919]
    scheds = []
    for entry in ("resolve", "unwrap", "download"):
        cs = [c for c in cases if c["entry"] == entry]
        for u in units:
            for sd in seeds:
                scheds.append({"entry": entry, "unit": u, "seed": sd, "cases": cs})
    ctx.log("%d schedules (entry x unit x seed), %d case evaluations" % (len(scheds), sum(len(s["cases"]) for s in scheds)))
    cmc, cscheds, cdev = conc_schedules(ctx, d)
    ctx.log("concurrent downloads: %d model states, %d schedules" % (cmc.distinct, len(cscheds)))
    rows, crows = run_all(ctx, scheds, "main", conc=cscheds)
    nreset = sum(1 for r in rows if r["ev"] == "Reset")
    ncase = sum(1 for r in rows if r["ev"] == "Case")
    if nreset != len(scheds) or ncase != sum(len(s["cases"]) for s in scheds):
        raise Broken("harness recorded %d runs / %d cases for %d schedules" % (nreset, ncase, len(scheds)))
    returned = {e: sum(1 for r in rows if r["ev"] == "Case" and r["c"]["entry"] == e and r["out"]["ret"]) for e in ("resolve", "unwrap", "download")}
    refused = {e: sum(1 for r in rows if r["ev"] == "Case" and r["c"]["entry"] == e and not r["out"]["ret"]) for e in ("resolve", "unwrap", "download")}
    if min(returned.values()) == 0 or min(refused.values()) == 0:
        raise Broken("vacuous run: returned=%s refused=%s" % (returned, refused))
    if not any(r["ev"] == "Case" and r["c"]["entry"] == "download" and r["out"].get("gets", 0) > 0 for r in rows):
        raise Broken("vacuous run: the download endpoint never read from the fake s3API")
    consumed, viol, _ = layers.observe(ctx, DIR, "Obs_LfsVerify.tla", "Obs_LfsVerify.cfg", rows, timeout=1200)
    violations, seen = [], set()
    for line, inv in sorted(viol):
        ev = rows[line - 1]
        sig = sig_of(inv, ev)
        if sig in seen:
            continue
        seen.add(sig)
        idx = sum(1 for r in rows[:line] if r["ev"] == "Reset") - 1
        sched = {"entry": ev["c"]["entry"], "unit": [r for r in rows[:line] if r["ev"] == "Reset"][-1]["unit"], "seed": scheds[idx]["seed"] if idx < len(scheds) else ctx.seed, "cases": [ev["c"]]}
        path = save_replay(prop, "case-%s.json" % re.sub(r"\W", "_", sig), {"schedule": sched, "line": ev})
        o, p = ev["out"], ev["p"]
        violations.append(Violation(prop, sig, "%s false on the real %s: case %s -> returned=%s blob=%s size=%d (supplied size %d, limit %d) [replay %s]" % (
            inv, ev["c"]["entry"], json.dumps(ev["c"], sort_keys=True), o["ret"], o["blob"], o["bsize"], p["supSize"], p["max"], path), {"schedule": sched, "event": ev}))
    cviol, cconf, cruns, coverl = conc_validate(ctx, prop, cscheds, crows)
    violations += cviol
    reached, total, _ = layers.conform(ctx, DIR, "Trace_LfsVerify.tla", "Trace_LfsVerify.cfg", rows, timeout=1200)
    drift = reached != total or cconf["reached"] != cconf["total"]
    conf = {"reached": reached, "total": total, "first_rejection": rows[reached] if drift and reached < len(rows) else None}
    st = self_test(ctx, rows)
    level = "model_checking"
    if drift and not violations:
        level = "exploration"
        ctx.log("DRIFT: conformance layer rejected a line although C30 held: %s" % json.dumps(conf["first_rejection"] or cconf["first_rejection"])[:600])
    nontrivial = len({case_key(r["c"]) for r in rows if r["ev"] == "Case" and (r["c"]["stored"] != "orig" or r["c"]["sha"] == "junk" or r["c"]["ck"] == "junk")})
    sample_rows = [r for r in rows if r["ev"] == "Case" and r["out"]["ret"]][:2] + [r for r in rows if r["ev"] == "Case" and not r["out"]["ret"]][:2]
    cov = {
        "states": mc.distinct, "transitions": mc.generated, "depth": mc.depth, "exhaustive": True,
        "model_config": "MC_LfsVerify_%s.cfg" % ctx.tier, "domain_cases": len(cases),
        "traces_validated_against_impl": nreset, "trace_events": len(rows),
        "evaluations": ncase, "distinct_nontrivial": nontrivial,
        "rule": "evaluations = enumerated cases x object unit sizes x seeds run through the real functions; non-trivial = distinct cases whose stored object is not the original or whose envelope carries a foreign digest",
        "returned_by_entry": returned, "refused_by_entry": refused,
        "deviation_schedules": {k: v for k, v in sorted(dev_cases.items())},
        "conformance": ("drift" if drift else "accepted"), "conformance_detail": conf,
        "binding_self_test": st, "unit_sizes_bytes": units,
        "concurrent_downloads": {"model": "LfsDlConc.tla", "states": cmc.distinct, "transitions": cmc.generated, "schedules": len(cscheds),
                                 "traces_validated_against_impl": cruns, "schedules_with_overlapping_streamed_200": coverl,
                                 "deviation_schedule": cdev, "conformance_detail": cconf},
        "samples": [scheds[0]["cases"][:2], sample_rows],
    }
    if not quick:
        cov["action_coverage"] = {k: v[1] for k, v in mc.action_coverage().items()}
    return verdict(ctx, violations, level, cov, [
        "digest equality is evaluated on concrete hex digests computed by the harness with Go's standard library over the bytes actually returned; the abstract model identifies a digest with the content it was computed from (no collisions among the six contents: asserted by the harness)",
        "the storage side is a fake s3API returning the scripted object in one piece; read errors mid-stream are not in the domain",
        "download endpoint: stream mode only; 'bytes sent' = HTTP 200, or the object's bytes appearing in any other response",
        "concurrency: two requests for one envelope, interleaved at the granularity fetch+verify+first chunk / remaining chunks (slow-client gate on the first body write), object replaced between steps; other interleavings inside the handler are not scheduled",
    ])


def self_test(ctx, rows):
    """Corrupt recorded fields: layer O must flag a wrong digest, layer C must reject a flipped result."""
    pick = None
    for i, r in enumerate(rows):
        if r["ev"] == "Case" and r["c"]["entry"] == "resolve" and r["out"]["ret"] and r["c"]["validate"] and r["c"]["alg"] == "sha256":
            pick = i
            break
    if pick is None:
        raise Broken("binding self-test: no returned, validated sha256 case in the trace")
    head = next(r for r in reversed(rows[:pick]) if r["ev"] == "Reset")
    bad = [head, copy.deepcopy(rows[pick])]
    bad[1]["out"]["bhash"]["sha256"] = "00" * 32
    _, viol, _ = layers.observe(ctx, DIR, "Obs_LfsVerify.tla", "Obs_LfsVerify.cfg", bad, name="selfO")
    if not any(v[1] == "C30_ReaderChecksum" for v in viol):
        raise Broken("binding self-test: observation layer did not flag a corrupted digest")
    bad = [head, copy.deepcopy(rows[pick])]
    bad[1]["out"]["ret"] = False
    reached, total, _ = layers.conform(ctx, DIR, "Trace_LfsVerify.tla", "Trace_LfsVerify.cfg", bad, name="selfC")
    if reached == total:
        raise Broken("binding self-test: conformance layer accepted a flipped result")
    return {"observation_layer_flags_corrupted_field": True, "conformance_layer_rejects_corrupted_state": True}


def replay(ctx, prop, path):
    obj = json.load(open(path))
    csched = obj.get("conc_schedule") or obj.get("detail", {}).get("conc_schedule")
    if csched:
        _, crows = run_all(ctx, [], "replay", conc=[csched])
        _, viol, _ = layers.observe(ctx, DIR, "Obs_LfsDlConc.tla", "Obs_LfsDlConc.cfg", crows, name="cobs")
        for r in crows:
            print(json.dumps(r, sort_keys=True)[:600])
        for line, inv in viol:
            print("VIOLATION property=%s replay=%s" % (prop, path))
            print("  %s false at line %d" % (inv, line))
        return 1 if viol else 0
    sched = obj.get("schedule") or obj.get("detail", {}).get("schedule")
    rows = run_all(ctx, [sched], "replay")
    _, viol, _ = layers.observe(ctx, DIR, "Obs_LfsVerify.tla", "Obs_LfsVerify.cfg", rows)
    for r in rows:
        print(json.dumps(r, sort_keys=True))
    for line, inv in viol:
        print("VIOLATION property=%s replay=%s" % (prop, path))
        print("  %s false at line %d" % (inv, line))
    return 1 if viol else 0
