CONSTANTS
 FixSizeEq = TRUE
 DevNoShaCheck = FALSE
 DevNoFallback = FALSE
 DevSkipMax = FALSE
 DevUnwrapNoAlgCheck = FALSE
 DevRetryKeepsBuffer = TRUE
INIT Init
NEXT Next
INVARIANTS C30_ReaderChecksum C30_ReaderSize C30_ServeSha C30_ServeSize
VIEW View
CHECK_DEADLOCK FALSE
