---- MODULE Obs_LfsDlConc ----
(* Observation layer for the concurrent-download traces: every line with done = TRUE is a finished  *)
(* request with what the harness presented (digest and size of the envelope) and what the client   *)
(* really received (byte count and digests of the body).  Predicates = LfsVerifyProps.             *)
EXTENDS Integers, Sequences, FiniteSets, TLC, Json
TraceLog == ndJsonDeserialize("trace.ndjson")
VARIABLES l, viol
ovars == <<l, viol>>
P(e) == INSTANCE LfsVerifyProps WITH
      entry <- "download", alg <- e.p.alg, ck <- e.p.ck, sha <- e.p.sha, validate <- e.p.validate,
      max <- e.p.max, supSize <- e.p.supSize, ret <- e.out.ret, bsize <- e.out.bsize, bhash <- e.out.bhash
OInit == l = 0 /\ viol = {}
Step ==
  /\ l < Len(TraceLog) /\ l' = l + 1
  /\ LET e == TraceLog[l + 1] IN
     /\ viol' = IF ~e.done THEN viol ELSE viol \cup
          {<<l + 1, n>> : n \in
             (IF P(e)!C30_ServeSha THEN {} ELSE {"C30_ServeSha"}) \cup
             (IF P(e)!C30_ServeSize THEN {} ELSE {"C30_ServeSize"})}
     /\ (l' = Len(TraceLog)) => PrintT(<<"OBS", ToJson([consumed |-> l', viol |-> viol'])>>)
OSpec == OInit /\ [][Step]_ovars
====
