CONSTANTS
 MaxOps = 7
 DevSharedBuffer = FALSE
INIT Init
NEXT Next
INVARIANTS EmitSched C30_ServeSha C30_ServeSize
VIEW View
CHECK_DEADLOCK FALSE
