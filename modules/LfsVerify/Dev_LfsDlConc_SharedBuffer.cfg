CONSTANTS
 MaxOps = 7
 DevSharedBuffer = TRUE
INIT Init
NEXT Next
INVARIANTS C30_ServeSha C30_ServeSize
VIEW View
CHECK_DEADLOCK FALSE
