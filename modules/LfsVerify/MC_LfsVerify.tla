---- MODULE MC_LfsVerify ----
EXTENDS LfsVerify
====
