---- MODULE Trace_LfsVerify ----
(* Conformance layer: the real function's result on every enumerated case must equal the         *)
(* transcription's result (returned or not, which object's bytes, status class).                 *)
EXTENDS LfsVerify
TraceLog == ndJsonDeserialize("trace.ndjson")
VARIABLE l
tvars == <<vars, l>>
E == TraceLog[l]
Cur(ev) == l <= Len(TraceLog) /\ E.ev = ev /\ l' = l + 1
TInit == Init /\ l = 1 /\ TLCSet(7, 0)
TReset == Cur("Reset") /\ cur' = None /\ out' = NoBlob /\ hist' = <<>>
TCase == /\ Cur("Case") /\ E.c \in Domain /\ Apply(E.c)
         /\ out'.ret = E.out.ret /\ out'.blob = E.out.blob /\ out'.status = E.out.status
Consumed == TLCSet(7, IF TLCGet(7) < l THEN l ELSE TLCGet(7))
TNext == (TReset \/ TCase) /\ Consumed
TSpec == TInit /\ [][TNext]_tvars
Reached == PrintT(<<"CONF", ToJson([reached |-> TLCGet(7), total |-> Len(TraceLog)])>>)
====
