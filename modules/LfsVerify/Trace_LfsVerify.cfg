CONSTANTS
 FixSizeEq = TRUE
 DevNoShaCheck = FALSE
 DevNoFallback = FALSE
 DevSkipMax = FALSE
 DevUnwrapNoAlgCheck = FALSE
 DevRetryKeepsBuffer = FALSE
INIT TInit
NEXT TNext
POSTCONDITION Reached
CHECK_DEADLOCK FALSE
