---- MODULE MC_LfsDlConc ----
EXTENDS LfsDlConc
====
