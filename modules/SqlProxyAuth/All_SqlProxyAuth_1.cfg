CONSTANTS
 MaxQ = 1
 Acls = {"allow","deny","both","open","stardeny"}
 CacheModes = {TRUE, FALSE}
 MaxEntries = 2
 FixFullText = TRUE
 DevCacheKeyTruncated = FALSE
 DevKeyCut = "none"
 DevStarSkipsDeny = FALSE
 OnlyWide = FALSE
INIT Init
NEXT Next
INVARIANTS EmitFinal
CHECK_DEADLOCK FALSE
