CONSTANTS
 MaxQ = 1
 Acls = {"allow","deny","both","open","stardeny"}
 CacheModes = {TRUE, FALSE}
 MaxEntries = 2
 FixFullText = TRUE
 DevCacheKeyTruncated = FALSE
 DevKeyCut = "none"
 DevAuthBeforeSemicolon = FALSE
 DevStarSkipsDeny = FALSE
 OnlyWide = FALSE
INIT Init
NEXT Next
INVARIANTS EmitFinal
CHECK_DEADLOCK FALSE
