CONSTANTS
 MaxQ = 1000
 Acls = {"allow","deny","both","open","stardeny"}
 CacheModes = {TRUE, FALSE}
 MaxEntries = 2
 FixFullText = TRUE
 DevCacheKeyTruncated = FALSE
 DevKeyCut = "none"
 DevAuthBeforeSemicolon = FALSE
 DevStarSkipsDeny = FALSE
 OnlyWide = FALSE
INIT TInit
NEXT TNext
POSTCONDITION Reached
CHECK_DEADLOCK FALSE
