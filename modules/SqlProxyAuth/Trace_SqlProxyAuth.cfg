CONSTANTS
 MaxQ = 1000
 Acls = {"allow","deny","both","open","stardeny"}
 CacheModes = {TRUE, FALSE}
 MaxEntries = 2
 FixFullText = TRUE
 DevCacheKeyTruncated = FALSE
 DevKeyCut = "none"
 DevStarSkipsDeny = FALSE
 OnlyWide = FALSE
INIT TInit
NEXT TNext
POSTCONDITION Reached
CHECK_DEADLOCK FALSE
