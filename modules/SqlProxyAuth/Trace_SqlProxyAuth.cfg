CONSTANTS
 MaxQ = 1000
 Acls = {"allow","deny","both","open"}
 CacheModes = {TRUE, FALSE}
 MaxEntries = 2
 FixFullText = TRUE
 DevCacheKeyTruncated = FALSE
INIT TInit
NEXT TNext
POSTCONDITION Reached
CHECK_DEADLOCK FALSE
