---- MODULE Trace_SqlProxyAuth ----
(* Conformance layer: every query sent through the real handleConn must be a Query step of       *)
(* SqlProxyAuth.tla with the same forward / refuse outcome; the ACL lists of the Reset line must  *)
(* be the modelled ones.                                                                          *)
EXTENDS SqlProxyAuth
TraceLog == ndJsonDeserialize("trace.ndjson")
VARIABLE l
tvars == <<vars, l>>
E == TraceLog[l]
Cur(ev) == l <= Len(TraceLog) /\ E.ev = ev /\ l' = l + 1
SetOf(s) == {s[i] : i \in DOMAIN s}
TInit == Init /\ l = 1 /\ TLCSet(7, 0)
TReset == /\ Cur("Reset") /\ E.acl \in Acls /\ E.cache \in CacheModes
          /\ AclDef(E.acl).allow = SetOf(E.allow) /\ AclDef(E.acl).deny = SetOf(E.deny)
          /\ acl' = E.acl /\ cacheOn' = E.cache /\ cache' = <<>> /\ n' = 0
          /\ last' = [q |-> NoQ, fwd |-> FALSE] /\ hist' = <<>>
TQuery == /\ Cur("Query")
          /\ LET q == [shape |-> E.shape, t1 |-> E.t1, t2 |-> E.t2, pos |-> E.pos, wide |-> E.wide] IN
             q \in Queries /\ Query(q)
          /\ last'.fwd = E.fwd /\ E.same /\ n' = E.i
          /\ (E.fwd => SetOf(E.topics) = TopicsOf(last'.q))
Consumed == TLCSet(7, IF TLCGet(7) < l THEN l ELSE TLCGet(7))
TNext == (TReset \/ TQuery) /\ Consumed
TSpec == TInit /\ [][TNext]_tvars
Reached == PrintT(<<"CONF", ToJson([reached |-> TLCGet(7), total |-> Len(TraceLog)])>>)
====
