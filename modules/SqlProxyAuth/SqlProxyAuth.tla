---- MODULE SqlProxyAuth ----
(* addons/processors/sql-processor/internal/proxy/proxy.go: one client connection through       *)
(* handleConn.  Per simple Query message: trimQuery (512-byte truncation + "...") -> cacheKey ->  *)
(* per-connection decision cache -> authorizeQuery -> forward the ORIGINAL message or answer an   *)
(* error.  A query is abstracted to its statement shape and its topic references, each placed     *)
(* before the 512-byte cut ("near"), across it ("straddle": only a fragment of the name is left   *)
(* in the truncated text), after it ("far") or far after it ("vfar": beyond 64 KiB, so that any  *)
(* other fixed truncation length is exercised as well).  Blank padding disappears in the           *)
(* whitespace-normalised cache key, so a second dimension `wide` gives select / join statements a   *)
(* projection of 1.5 KiB / 6 KiB / 80 KiB of non-blank text in front of the FROM clause: two such   *)
(* statements are byte-identical up to that width and differ only in the topics after it.          *)
EXTENDS Integers, Sequences, FiniteSets, TLC, Json
CONSTANTS MaxQ, Acls, CacheModes, MaxEntries,
          FixFullText,           \* TRUE: authorisation and cache key use the full text (repaired); FALSE: the truncated text
          DevCacheKeyTruncated,  \* deviation: authorise on the full text but still key the cache by the truncated text
          DevKeyCut,             \* deviation: the normalised cache key is cut to a fixed length: "none", or the smallest
                                 \* width class ("w1" ~1 KiB, "w2" ~4 KiB, "w3" ~64 KiB) whose topics fall behind the cut
          DevAuthBeforeSemicolon, \* deviation: the decision is taken on the text before the first ';' (pos "semi": the join clause
                                 \* follows a ';' in the middle of the text; the upstream parser reads straight through it)
          DevStarSkipsDeny,      \* deviation: allow=["*"] counts as "nothing to enforce", the deny list is not consulted
          OnlyWide               \* TRUE: enumerate wide statements only (schedule generation)
Topics == {"ta", "td"}
AclDef(a) == CASE a = "allow" -> [allow |-> {"ta"}, deny |-> {}]
               [] a = "deny"  -> [allow |-> {}, deny |-> {"td"}]
               [] a = "both"  -> [allow |-> {"ta", "td"}, deny |-> {"td"}]
               [] a = "open"  -> [allow |-> {}, deny |-> {}]
               [] a = "stardeny" -> [allow |-> {"*"}, deny |-> {"td"}]
Singles == {[shape |-> s, t1 |-> t, t2 |-> "none", pos |-> "near", wide |-> "w0"] : s \in {"select", "explain", "describe", "showparts"}, t \in Topics}
Joins == {[shape |-> s, t1 |-> a, t2 |-> b, pos |-> p, wide |-> "w0"] : s \in {"join", "explainjoin"}, a \in Topics, b \in Topics, p \in {"near", "semi", "straddle", "far", "vfar"}}
Others == {[shape |-> s, t1 |-> "none", t2 |-> "none", pos |-> "near", wide |-> "w0"] : s \in {"showtopics", "set"}}
WideClasses == {"w1", "w2", "w3"}
Rank(w) == CASE w = "w0" -> 0 [] w = "w1" -> 1 [] w = "w2" -> 2 [] w = "w3" -> 3 [] OTHER -> 9
WideQs == {[shape |-> "select", t1 |-> a, t2 |-> "none", pos |-> "near", wide |-> w] : a \in Topics, w \in WideClasses}
          \cup {[shape |-> "join", t1 |-> a, t2 |-> b, pos |-> "near", wide |-> w] : a \in Topics, b \in Topics, w \in WideClasses}
Queries == IF OnlyWide THEN WideQs ELSE Singles \cup Joins \cup Others \cup WideQs

VARIABLES acl, cacheOn, cache, n, last, hist
vars == <<acl, cacheOn, cache, n, last, hist>>
NoQ == [shape |-> "none", t1 |-> "none", t2 |-> "none", pos |-> "near", wide |-> "w0"]
Init == /\ acl \in Acls /\ cacheOn \in CacheModes /\ cache = <<>> /\ n = 0
        /\ last = [q |-> NoQ, fwd |-> FALSE] /\ hist = <<>>

A == AclDef(acl)
Allowed(t) == t \notin A.deny /\ (A.allow = {} \/ "*" \in A.allow \/ t \in A.allow)
AllowShowTopics == A.deny = {} /\ (A.allow = {} \/ "*" \in A.allow)
TopicsOf(q) == {q.t1, q.t2} \ {"none"}              \* what the upstream reads when it executes the forwarded text
OnFull == FixFullText \/ DevCacheKeyTruncated
\* topics the proxy's parser finds in the text it authorises
Vis(q) == IF DevAuthBeforeSemicolon /\ q.pos = "semi" THEN {q.t1}
          ELSE IF OnFull \/ q.t2 = "none" \/ q.pos \in {"near", "semi"} THEN TopicsOf(q)
          ELSE IF q.pos = "straddle" THEN {q.t1, "frag"} ELSE {q.t1}
\* the 512-byte prefix of a wide statement ends inside its projection: the proxy's parser finds no FROM clause
ParseFails(q) == ~OnFull /\ q.wide # "w0"
KeyCutHits(q) == DevKeyCut # "none" /\ q.wide # "w0" /\ Rank(q.wide) >= Rank(DevKeyCut)
Key(q) == IF KeyCutHits(q) THEN [s |-> "cut", t1 |-> "cut", t2 |-> "cut", w |-> q.wide]      \* same first bytes whatever the topics
          ELSE IF FixFullText /\ ~DevCacheKeyTruncated
          THEN [s |-> q.shape, t1 |-> q.t1, t2 |-> q.t2, w |-> q.wide]       \* whitespace-normalised full text
          ELSE [s |-> q.shape, t1 |-> q.t1, t2 |-> IF q.pos \in {"near", "semi"} THEN q.t2 ELSE IF q.pos = "straddle" THEN "straddle" ELSE "far",
                w |-> IF q.wide = "w0" THEN "w0" ELSE "wide"]
Authorize(q) == IF q.shape = "set" THEN TRUE
                ELSE IF A.allow = {} /\ A.deny = {} THEN TRUE
                ELSE IF DevStarSkipsDeny /\ "*" \in A.allow THEN TRUE
                ELSE IF ParseFails(q) THEN FALSE
                ELSE IF q.shape = "showtopics" THEN AllowShowTopics
                ELSE \A t \in Vis(q) : Allowed(t)
Idx(k) == IF \E i \in 1..Len(cache) : cache[i].k = k THEN CHOOSE i \in 1..Len(cache) : cache[i].k = k ELSE 0
Trim(s) == IF Len(s) > MaxEntries THEN SubSeq(s, Len(s) - MaxEntries + 1, Len(s)) ELSE s

Query(q) ==
  /\ n < MaxQ /\ n' = n + 1
  /\ LET k == Key(q)
         hit == cacheOn /\ Idx(k) # 0
         dec == IF hit THEN cache[Idx(k)].d ELSE Authorize(q)
     IN /\ cache' = IF cacheOn /\ ~hit THEN Trim(Append(cache, [k |-> k, d |-> dec])) ELSE cache
        /\ last' = [q |-> q, fwd |-> dec]
  /\ hist' = Append(hist, q)
  /\ UNCHANGED <<acl, cacheOn>>

Next == \E q \in Queries : Query(q)
Spec == Init /\ [][Next]_vars

P == INSTANCE SqlProxyAuthProps WITH fwdTopics <- (IF last.fwd THEN TopicsOf(last.q) ELSE {}), allow <- A.allow, deny <- A.deny
C37_ForwardedAuthorized == P!C37_ForwardedAuthorized
\* the repaired proxy is also complete: it refuses nothing it could have authorised (internal, not part of C37)
NoFalseDeny == (last.q # NoQ /\ ~last.fwd) => ~Authorize(last.q)
Terminal == n = MaxQ
View == <<acl, cacheOn, cache, n, last>>
Sched == [acl |-> acl, cache |-> cacheOn, steps |-> hist]
EmitSched == PrintT(<<"SCHED", ToJson(Sched)>>)
EmitFinal == Terminal => PrintT(<<"SCHED", ToJson(Sched)>>)
====
