---- MODULE Obs_SqlProxyAuth ----
(* Observation layer: no model actions.  Per Query line the harness logged whether the fake       *)
(* upstream received a message from the real proxy and which topics that forwarded text reads;    *)
(* the ACL lists come from the Reset line.  The predicate is the SqlProxyAuthProps definition.    *)
EXTENDS Integers, Sequences, FiniteSets, TLC, Json
TraceLog == ndJsonDeserialize("trace.ndjson")
Range(s) == {s[i] : i \in DOMAIN s}
VARIABLES l, allow, deny, viol
ovars == <<l, allow, deny, viol>>
P(t, a, d) == INSTANCE SqlProxyAuthProps WITH fwdTopics <- t, allow <- a, deny <- d
OInit == l = 0 /\ allow = {} /\ deny = {} /\ viol = {}
Step ==
  /\ l < Len(TraceLog) /\ l' = l + 1
  /\ LET e == TraceLog[l + 1] IN
     /\ allow' = IF e.ev = "Reset" THEN Range(e.allow) ELSE allow
     /\ deny' = IF e.ev = "Reset" THEN Range(e.deny) ELSE deny
     /\ viol' = IF e.ev = "Query" /\ ~P(IF e.fwd THEN Range(e.topics) ELSE {}, allow, deny)!C37_ForwardedAuthorized
                THEN viol \cup {<<l + 1, "C37_ForwardedAuthorized">>} ELSE viol
     /\ (l' = Len(TraceLog)) => PrintT(<<"OBS", ToJson([consumed |-> l', viol |-> viol'])>>)
OSpec == OInit /\ [][Step]_ovars
====
