---- MODULE SqlProxyAuthProps ----
(* C37 stated once, over parameters.  SqlProxyAuth.tla instantiates it with model state,       *)
(* Obs_SqlProxyAuth.tla with what the fake upstream received from the real proxy.              *)
EXTENDS Integers, FiniteSets
CONSTANTS fwdTopics,  \* topics read by the text the proxy just forwarded upstream ({} if it forwarded nothing)
          allow,      \* ACL allow list (exact names or the wildcard "*"; {} = no allow list)
          deny        \* ACL deny list
Allowed(t) == t \notin deny /\ (allow = {} \/ "*" \in allow \/ t \in allow)
C37_ForwardedAuthorized == \A t \in fwdTopics : Allowed(t)
====
