CONSTANTS
 MaxQ = 2
 Acls = {"allow","deny","both","open"}
 CacheModes = {TRUE, FALSE}
 MaxEntries = 2
 FixFullText = TRUE
 DevCacheKeyTruncated = FALSE
INIT Init
NEXT Next
INVARIANTS EmitFinal
CHECK_DEADLOCK FALSE
