package proxy

// Verification harness (injected with `go test -overlay`; not part of the repository).
// Drives the real Server.handleConn between a pgproto3 client and a fake upstream (both over net.Pipe),
// renders the abstract queries of TLC-generated schedules to SQL text (padding with blanks so that a topic
// reference lands before / across / after byte 512) and records, per query, whether the upstream received
// it and which topics that forwarded text reads.

import (
	"bufio"
	"context"
	"encoding/json"
	"fmt"
	"io"
	"log"
	"net"
	"os"
	"sort"
	"strings"
	"sync"
	"testing"
	"time"

	"github.com/jackc/pgproto3/v2"

	"github.com/kafscale/platform/addons/processors/sql-processor/internal/config"
	kafsql "github.com/kafscale/platform/addons/processors/sql-processor/internal/sql"
)

type paQuery struct {
	Shape string `json:"shape"`
	T1    string `json:"t1"`
	T2    string `json:"t2"`
	Pos   string `json:"pos"`
	Wide  string `json:"wide"` // w0: "select *"; w1/w2/w3: a projection of 1.5 KiB / 6 KiB / 80 KiB of non-blank text before FROM
}

type paSched struct {
	Acl   string    `json:"acl"`
	Cache bool      `json:"cache"`
	Steps []paQuery `json:"steps"`
}

var paAcls = map[string]config.ProxyACLConfig{
	"allow":    {Allow: []string{"ta"}},
	"deny":     {Deny: []string{"td"}},
	"both":     {Allow: []string{"ta", "td"}, Deny: []string{"td"}},
	"open":     {},
	"stardeny": {Allow: []string{"*"}, Deny: []string{"td"}},
}

// paWide: width and fill letter of the projection alias per class (different letters: different classes never share a prefix)
var paWide = map[string]struct {
	n    int
	fill string
}{"w1": {1500, "a"}, "w2": {6000, "b"}, "w3": {80000, "c"}}

const paCut = 512 // trimQuery's truncation point

// paRender returns the SQL text of an abstract query and the topics it reads, known by construction.
func paRender(q paQuery) (string, []string) {
	if w, ok := paWide[q.Wide]; ok { // wide statements: identical up to the end of the projection, topics only afterwards
		head := "select _offset as " + strings.Repeat(w.fill, w.n) + " from " + q.T1
		switch {
		case q.Shape == "select":
			return head, []string{q.T1}
		case q.Shape == "join" && q.Pos == "near":
			topics := []string{q.T1}
			if q.T2 != q.T1 {
				topics = append(topics, q.T2)
			}
			sort.Strings(topics)
			return head + " join " + q.T2, topics
		}
		return "", nil
	}
	switch q.Shape {
	case "select":
		return "select * from " + q.T1, []string{q.T1}
	case "explain":
		return "explain select * from " + q.T1, []string{q.T1}
	case "describe":
		return "describe " + q.T1, []string{q.T1}
	case "showparts":
		return "show partitions from " + q.T1, []string{q.T1}
	case "showtopics":
		return "show topics", []string{}
	case "set":
		return "set application_name = 'verif'", []string{}
	case "join", "explainjoin":
		head := "select * from " + q.T1
		if q.Shape == "explainjoin" {
			head = "explain " + head
		}
		var text string
		switch q.Pos {
		case "near":
			text = head + " join " + q.T2
		case "semi": // the join clause follows a ';' in the middle of the text (the server's parser reads straight through it)
			text = head + " ; join " + q.T2
		case "straddle": // byte 512 falls after the first character of the joined topic's name
			pad := paCut - len(head) - len(" join ") - 1
			text = head + strings.Repeat(" ", pad) + " join " + q.T2
		case "far": // the whole join clause lies beyond byte 512
			pad := paCut + 8 - len(head)
			text = head + strings.Repeat(" ", pad) + "join " + q.T2
		case "vfar": // ... and beyond 64 KiB
			text = head + strings.Repeat(" ", 70000) + "join " + q.T2
		}
		topics := []string{q.T1}
		if q.T2 != q.T1 {
			topics = append(topics, q.T2)
		}
		sort.Strings(topics)
		return text, topics
	}
	return "", nil
}

// paParsedTopics: what the upstream server's own parser reads from a text (cross-check of the rendering).
func paParsedTopics(text string) ([]string, error) {
	lower := strings.ToLower(strings.TrimSpace(text))
	if strings.HasPrefix(lower, "set ") || strings.HasPrefix(lower, "reset ") {
		return []string{}, nil
	}
	parsed, err := kafsql.Parse(text)
	if err != nil {
		return nil, err
	}
	var walk func(p kafsql.Query) []string
	walk = func(p kafsql.Query) []string {
		switch p.Type {
		case kafsql.QueryShowPartitions, kafsql.QueryDescribe:
			return []string{p.Topic}
		case kafsql.QueryExplain:
			if p.Explain != nil {
				return walk(*p.Explain)
			}
		case kafsql.QuerySelect:
			out := []string{p.Topic}
			if p.JoinTopic != "" && p.JoinTopic != p.Topic {
				out = append(out, p.JoinTopic)
			}
			return out
		}
		return []string{}
	}
	out := walk(parsed)
	sort.Strings(out)
	return out, nil
}

type paUpstream struct {
	mu   sync.Mutex
	seen []string
}

func (u *paUpstream) serve(conn net.Conn) {
	defer conn.Close()
	backend := pgproto3.NewBackend(pgproto3.NewChunkReader(conn), conn)
	if _, err := backend.ReceiveStartupMessage(); err != nil {
		return
	}
	_ = backend.Send(&pgproto3.AuthenticationOk{})
	_ = backend.Send(&pgproto3.ReadyForQuery{TxStatus: 'I'})
	for {
		msg, err := backend.Receive()
		if err != nil {
			return
		}
		switch m := msg.(type) {
		case *pgproto3.Query:
			u.mu.Lock()
			u.seen = append(u.seen, m.String)
			u.mu.Unlock()
			_ = backend.Send(&pgproto3.CommandComplete{CommandTag: []byte("SELECT 0")})
			_ = backend.Send(&pgproto3.ReadyForQuery{TxStatus: 'I'})
		case *pgproto3.Terminate:
			return
		default:
			_ = backend.Send(&pgproto3.ErrorResponse{Severity: "ERROR", Message: "unsupported"})
			_ = backend.Send(&pgproto3.ReadyForQuery{TxStatus: 'I'})
		}
	}
}

func TestVerifProxyAuthReplay(t *testing.T) {
	in, outPath := os.Getenv("VERIF_SCHEDULES"), os.Getenv("VERIF_TRACE_OUT")
	if in == "" || outPath == "" {
		t.Skip("no schedules")
	}
	f, err := os.Open(in)
	if err != nil {
		t.Fatal(err)
	}
	defer f.Close()
	out, err := os.Create(outPath)
	if err != nil {
		t.Fatal(err)
	}
	defer out.Close()
	bw := bufio.NewWriter(out)
	defer bw.Flush()
	emit := func(m map[string]any) {
		b, _ := json.Marshal(m)
		bw.Write(b)
		bw.WriteByte('\n')
	}
	sc := bufio.NewScanner(f)
	sc.Buffer(make([]byte, 1<<20), 1<<26)
	n := 0
	for sc.Scan() {
		var s paSched
		if err := json.Unmarshal(sc.Bytes(), &s); err != nil {
			t.Fatal(err)
		}
		acl, ok := paAcls[s.Acl]
		if !ok {
			t.Fatalf("unknown acl %q", s.Acl)
		}
		cfg := config.ProxyConfig{Listen: ":0", Upstreams: []string{"upstream"}, ACL: acl}
		if s.Cache {
			cfg.CacheTTLSeconds, cfg.CacheMaxEntries = 3600, 2
		}
		srv := New(cfg, log.New(io.Discard, "", 0))
		up := &paUpstream{}
		srv.dialer = func(ctx context.Context, addr string) (net.Conn, error) {
			a, b := net.Pipe()
			go up.serve(a)
			return b, nil
		}
		allow, deny := append([]string{}, acl.Allow...), append([]string{}, acl.Deny...)
		emit(map[string]any{"ev": "Reset", "acl": s.Acl, "allow": allow, "deny": deny, "cache": s.Cache, "sched": n})

		serverConn, clientConn := net.Pipe()
		_ = clientConn.SetDeadline(time.Now().Add(60 * time.Second))
		errCh := make(chan error, 1)
		go func() { errCh <- srv.handleConn(context.Background(), serverConn) }()
		frontend := pgproto3.NewFrontend(pgproto3.NewChunkReader(clientConn), clientConn)
		startup := &pgproto3.StartupMessage{ProtocolVersion: pgproto3.ProtocolVersionNumber, Parameters: map[string]string{"user": "verif"}}
		buf, err := startup.Encode(nil)
		if err != nil {
			t.Fatal(err)
		}
		if _, err := clientConn.Write(buf); err != nil {
			t.Fatalf("schedule %d: startup: %v", n, err)
		}
		ready := func() (string, error) {
			msg := ""
			for {
				m, err := frontend.Receive()
				if err != nil {
					return msg, err
				}
				switch mm := m.(type) {
				case *pgproto3.ErrorResponse:
					msg = mm.Message
				case *pgproto3.ReadyForQuery:
					return msg, nil
				}
			}
		}
		if _, err := ready(); err != nil {
			t.Fatalf("schedule %d: startup reply: %v", n, err)
		}
		for i, q := range s.Steps {
			text, topics := paRender(q)
			if text == "" {
				t.Fatalf("schedule %d: cannot render %+v", n, q)
			}
			if pt, err := paParsedTopics(text); err != nil || fmt.Sprint(pt) != fmt.Sprint(topics) {
				t.Fatalf("schedule %d: rendering of %+v is not read as %v by the server's parser (%v, %v)", n, q, topics, pt, err)
			}
			up.mu.Lock()
			before := len(up.seen)
			up.mu.Unlock()
			if err := frontend.Send(&pgproto3.Query{String: text}); err != nil {
				t.Fatalf("schedule %d: send: %v", n, err)
			}
			emsg, err := ready()
			if err != nil {
				t.Fatalf("schedule %d query %d: %v", n, i, err)
			}
			up.mu.Lock()
			got := append([]string{}, up.seen[before:]...)
			up.mu.Unlock()
			ev := map[string]any{"ev": "Query", "i": i + 1, "shape": q.Shape, "t1": q.T1, "t2": q.T2, "pos": q.Pos, "wide": q.Wide,
				"len": len(text), "fwd": len(got) > 0, "same": true, "topics": []string{}, "err": emsg}
			if len(got) > 1 {
				t.Fatalf("schedule %d query %d: upstream received %d messages for one query", n, i, len(got))
			}
			if len(got) == 1 {
				if got[0] == text {
					ev["topics"] = topics
				} else { // the proxy forwarded something else than it was sent: judge the forwarded text itself
					ev["same"] = false
					pt, err := paParsedTopics(got[0])
					if err != nil {
						pt = []string{}
					}
					ev["topics"] = pt
				}
			}
			emit(ev)
		}
		_ = frontend.Send(&pgproto3.Terminate{})
		select {
		case <-errCh:
		case <-time.After(30 * time.Second):
			t.Fatalf("schedule %d: handleConn did not return", n)
		}
		clientConn.Close()
		n++
	}
	t.Logf("replayed %d schedules", n)
}
