CONSTANTS
 MaxQ = 4
 Acls = {"allow","deny","both","open"}
 CacheModes = {TRUE, FALSE}
 MaxEntries = 2
 FixFullText = TRUE
 DevCacheKeyTruncated = FALSE
INIT Init
NEXT Next
INVARIANTS C37_ForwardedAuthorized
VIEW View
CHECK_DEADLOCK FALSE
