"""SqlProxyAuth.tla — C37 (sql-processor proxy: authorisation of the forwarded query text)."""
import copy, json, os, random, re
from lib import tlc as T, layers, gorun
from lib.common import Broken, Violation, verdict, save_replay

PROPS = {
    "C37": {
        "text": "SqlProxyAuth.tla models one client connection through the SQL proxy's handleConn: per query the 512-byte truncation, the per-connection decision cache keyed by the (truncated or full) text, authorizeQuery and the forward/refuse outcome; a query is abstracted to its statement shape and topic references placed before / across / after byte 512. TLC checks exhaustively (5 ACL configurations incl. wildcard allow + deny, cache on/off, sequences of <=2 (quick) / <=3 (thorough) queries out of 68 abstract statements) that every forwarded query reads only allowed topics. TLC-enumerated sequences (all single queries, all pairs in the thorough tier, simulated longer ones, counterexamples of the named wrong designs) are rendered to SQL text and sent through the REAL handleConn between a pgproto3 client and a fake upstream; TLC evaluates the property on what the upstream received (layer O) and checks each outcome against the model (layer C).",
        "note": "Trusted: TLC, the rendering of abstract queries to SQL text (cross-checked in every run against the upstream server's own parser kafsql.Parse), net.Pipe as transport, ACLs with exact topic names and the wildcard \"*\" (no other glob patterns). Simple-query protocol only (the proxy refuses the extended protocol).",
        "technique": "TLA+ model (SqlProxyAuth.tla) + TLC exhaustive check + replay of TLC-enumerated query sequences through the real proxy connection handler + TLC trace validation (observation and conformance layers)",
    }
}
DEVIATIONS = {n: "C37_ForwardedAuthorized" for n in ("FullText", "CacheKeyTruncated", "KeyCut", "KeyCutHuge", "StarSkipsDeny", "AuthBeforeSemicolon")}
PKG = "addons/processors/sql-processor"


def harness(ctx, scheds, tag):
    sp = os.path.join(ctx.scratch, "sched-%s.ndjson" % tag)
    tp = os.path.join(ctx.scratch, "trace-%s.ndjson" % tag)
    gorun.write_ndjson(sp, [{k: v for k, v in s.items() if k != "label"} for s in scheds])
    rc, out = gorun.go_test(ctx, PKG, "./internal/proxy/", {PKG + "/internal/proxy/zz_verif_proxyauth_test.go": os.path.join(DIR, "harness", "proxyauth_verif_test.go")},
                            "^TestVerifProxyAuthReplay$", env={"VERIF_SCHEDULES": sp, "VERIF_TRACE_OUT": tp}, timeout=1500)
    if rc != 0 or "replayed %d schedules" % len(scheds) not in out:
        raise Broken("proxy harness failed:\n" + out[-3000:])
    return gorun.read_ndjson(tp)


def split(rows):
    runs, cur = [], None
    for r in rows:
        if r["ev"] == "Reset":
            cur = []
            runs.append(cur)
        cur.append(r)
    return runs


def enumerate_all(ctx, d, cfg):
    r = T.tlc(ctx, d, "MC_SqlProxyAuth.tla", cfg, workers=1, timeout=900, deadlock_off=True)
    if r.violated or not r.ok or not r.prints.get("SCHED"):
        raise Broken("enumeration %s failed:\n%s" % (cfg, r.out[-2000:]))
    out = [dict(h, label="enum") for h in r.prints["SCHED"]]
    out.sort(key=lambda s: json.dumps(s, sort_keys=True))
    return out


def build_schedules(ctx, d):
    quick = ctx.quick()
    rnd = random.Random(ctx.seed)
    scheds = []
    for dev, inv in sorted(DEVIATIONS.items()):
        path = os.path.join(d, "ce-Dev_%s.json" % dev)
        r = T.tlc(ctx, d, "MC_SqlProxyAuth.tla", "Dev_SqlProxyAuth_%s.cfg" % dev, dump_trace=path, timeout=300, workers=4, deadlock_off=True)
        if inv not in r.violated or not os.path.exists(path):
            raise Broken("deviation %s no longer violates %s in the model (vacuous deviation)" % (dev, inv))
        st = json.load(open(path))["counterexample"]["state"][-1][1]
        scheds.append({"acl": st["acl"], "cache": st["cacheOn"], "steps": st["hist"], "label": "dev:" + dev})
    ndev = len(scheds)
    singles = enumerate_all(ctx, d, "All_SqlProxyAuth_1.cfg")
    # every ordered pair of wide statements (identical up to 1.5 / 6 / 80 KiB, topics only afterwards) on one connection, cache on
    wide = [dict(s, label="widepair") for s in enumerate_all(ctx, d, "All_SqlProxyAuth_wide2.cfg")]
    pairs = enumerate_all(ctx, d, "All_SqlProxyAuth_2.cfg")
    rnd.shuffle(pairs)
    pairs = pairs[:600] if quick else pairs[:10000]
    r = T.tlc(ctx, d, "MC_SqlProxyAuth.tla", "Sim_SqlProxyAuth.cfg", workers=1, simulate="num=%d" % (150 if quick else 1500), depth=8, seed=ctx.seed, deadlock_off=True, timeout=900)
    if r.violated:
        raise Broken("simulation reported a violation:\n" + r.out[-2000:])
    ps = r.prints.get("SCHED", [])
    sims = [dict(h, label="sim") for i, h in enumerate(ps) if h["steps"] and (i + 1 == len(ps) or len(ps[i + 1]["steps"]) <= len(h["steps"]))]
    scheds += singles + wide + pairs + sims
    ctx.log("%d schedules (%d deviation counterexamples, %d single queries, %d wide pairs, %d sampled pairs, %d simulated)" % (len(scheds), ndev, len(singles), len(wide), len(pairs), len(sims)))
    return scheds, ndev


def sig_of(ev):
    q = ev["shape"] + ("/" + ev["pos"] if ev["t2"] != "none" and ev["wide"] == "w0" else "") + ("/" + ev["wide"] if ev["wide"] != "w0" else "")
    return "C37_ForwardedAuthorized@%s" % q


def check(ctx, prop):
    quick = ctx.quick()
    d = T.stage(ctx, DIR, "mc")
    mc = T.model_check(ctx, d, "MC_SqlProxyAuth.tla", "MC_SqlProxyAuth_%s.cfg" % ctx.tier, coverage=not quick, timeout=1500, workers=6, deadlock_off=True)
    ctx.log("model: %d distinct states, depth %d" % (mc.distinct, mc.depth))
    scheds, ndev = build_schedules(ctx, d)
    rows = harness(ctx, scheds, "main")
    runs = split(rows)
    if len(runs) != len(scheds):
        raise Broken("harness recorded %d runs for %d schedules" % (len(runs), len(scheds)))
    consumed, viol, _ = layers.observe(ctx, DIR, "Obs_SqlProxyAuth.tla", "Obs_SqlProxyAuth.cfg", rows)
    ctx.log("layer O: %d lines, %d violating" % (consumed, len(viol)))
    starts, n = [], 0
    for r in runs:
        starts.append(n)
        n += len(r)
    import bisect
    violations, first = [], set()
    for line, inv in sorted(viol):
        i = bisect.bisect_right(starts, line - 1) - 1
        ev = rows[line - 1]
        sig = sig_of(ev)
        if sig in first:
            continue
        first.add(sig)
        path = save_replay(prop, "sched-%s.json" % re.sub(r"\W+", "_", sig), {"schedule": scheds[i], "trace": runs[i], "line": ev})
        violations.append(Violation(prop, sig, "the real proxy forwarded a %s query reading topics %s under ACL allow=%s deny=%s (query %d of the connection, %d bytes, cache %s) [schedule %s, replay %s]" % (ev["shape"], ev["topics"], runs[i][0]["allow"], runs[i][0]["deny"], ev["i"], ev["len"], "on" if runs[i][0]["cache"] else "off", scheds[i]["label"], path), {"schedule": scheds[i], "event": ev}))
    reached, total, _ = layers.conform(ctx, DIR, "Trace_SqlProxyAuth.tla", "Trace_SqlProxyAuth.cfg", rows)
    conf = {"accepted": len(runs) if reached == total else 0, "rejected": 0 if reached == total else 1,
            "first_rejection": None if reached == total else {"line": rows[reached] if reached < len(rows) else None}}
    st = self_test(ctx, runs, scheds)
    level, drift = "model_checking", reached != total
    if drift and not violations:
        level = "exploration"
        ctx.log("DRIFT: conformance layer rejected a trace although C37 held: " + json.dumps(conf["first_rejection"]))
    nontrivial = len({json.dumps(s["steps"], sort_keys=True) + s["acl"] + str(s["cache"]) for s in scheds if any(q["pos"] != "near" or q["wide"] != "w0" for q in s["steps"])})
    cov = {
        "states": mc.distinct, "transitions": mc.generated, "depth": mc.depth, "exhaustive": True, "model_config": "MC_SqlProxyAuth_%s.cfg" % ctx.tier,
        "traces_validated_against_impl": len(runs), "trace_events": len(rows), "queries_sent": sum(len(r) - 1 for r in runs),
        "queries_forwarded": sum(1 for r in rows if r["ev"] == "Query" and r["fwd"]),
        "evaluations": len(scheds), "distinct_nontrivial": nontrivial,
        "rule": "schedules (one client connection each) = TLC counterexamples of the named deviations + every single query x ACL x cache mode + every ordered pair of wide statements x ACL (cache on) + a seeded sample of ordered pairs (600 quick / 10000 thorough) + TLC -simulate sequences of up to 6 queries; non-trivial = contains a query with a topic reference across or beyond byte 512 or behind a wide projection",
        "deviation_schedules": sorted(DEVIATIONS), "conformance": ("drift" if drift else "accepted"), "conformance_detail": conf,
        "binding_self_test": st, "samples": [scheds[0], scheds[1], runs[0]],
    }
    if not quick:
        cov["action_coverage"] = {k: v[1] for k, v in mc.action_coverage().items()}
    return verdict(ctx, violations, level, cov, [
        "the topics a forwarded text reads are known by construction of the rendering and cross-checked against the server's parser (kafsql.Parse) for every query sent",
        "ACL entries are exact topic names or the wildcard *; the upstream is a fake that records the texts it receives",
        "one connection at a time (the decision cache is per connection)",
    ])


def self_test(ctx, runs, scheds):
    """Layer O must flag a forwarded query whose topics are not allowed; layer C must reject a flipped outcome."""
    i = next(i for i, r in enumerate(runs) if r[0]["acl"] == "allow" and any(e["ev"] == "Query" and not e["fwd"] and e["shape"] == "select" for e in r))
    bad = copy.deepcopy(runs[i])
    e = next(e for e in bad if e["ev"] == "Query" and not e["fwd"] and e["shape"] == "select")
    e["fwd"], e["topics"] = True, [e["t1"]]
    _, viol, _ = layers.observe(ctx, DIR, "Obs_SqlProxyAuth.tla", "Obs_SqlProxyAuth.cfg", bad, name="selfO")
    if not viol:
        raise Broken("binding self-test: observation layer did not flag a forwarded query on a denied topic")
    reached, total, _ = layers.conform(ctx, DIR, "Trace_SqlProxyAuth.tla", "Trace_SqlProxyAuth.cfg", bad, name="selfC")
    if reached == total:
        raise Broken("binding self-test: conformance layer accepted a flipped forward/refuse outcome")
    return {"observation_layer_flags_corrupted_field": True, "conformance_layer_rejects_corrupted_state": True}


def replay(ctx, prop, path):
    obj = json.load(open(path))
    sched = obj.get("schedule") or obj.get("detail", {}).get("schedule")
    rows = harness(ctx, [sched], "replay")
    _, viol, _ = layers.observe(ctx, DIR, "Obs_SqlProxyAuth.tla", "Obs_SqlProxyAuth.cfg", rows)
    for r in rows:
        print(json.dumps(r, sort_keys=True))
    for line, inv in viol:
        print("VIOLATION property=%s replay=%s" % (prop, path))
        print("  %s false at line %d" % (inv, line))
    return 1 if viol else 0
