CONSTANTS
 MaxQ = 2
 Acls = {"allow","both","stardeny"}
 CacheModes = {TRUE}
 MaxEntries = 2
 FixFullText = TRUE
 DevCacheKeyTruncated = FALSE
 DevKeyCut = "none"
 DevAuthBeforeSemicolon = FALSE
 DevStarSkipsDeny = FALSE
 OnlyWide = TRUE
INIT Init
NEXT Next
INVARIANTS EmitFinal
CHECK_DEADLOCK FALSE
