CONSTANTS
 MaxQ = 6
 Acls = {"allow","deny","both","open","stardeny"}
 CacheModes = {TRUE, FALSE}
 MaxEntries = 2
 FixFullText = TRUE
 DevCacheKeyTruncated = FALSE
 DevKeyCut = "none"
 DevAuthBeforeSemicolon = FALSE
 DevStarSkipsDeny = FALSE
 OnlyWide = FALSE
INIT Init
NEXT Next
INVARIANTS EmitSched C37_ForwardedAuthorized
CHECK_DEADLOCK FALSE
