CONSTANTS
 MaxQ = 6
 Acls = {"allow","deny","both","open"}
 CacheModes = {TRUE, FALSE}
 MaxEntries = 2
 FixFullText = TRUE
 DevCacheKeyTruncated = FALSE
INIT Init
NEXT Next
INVARIANTS EmitSched C37_ForwardedAuthorized
CHECK_DEADLOCK FALSE
