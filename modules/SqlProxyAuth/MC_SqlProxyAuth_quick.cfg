CONSTANTS
 MaxQ = 2
 Acls = {"allow","deny","both","open","stardeny"}
 CacheModes = {TRUE, FALSE}
 MaxEntries = 2
 FixFullText = TRUE
 DevCacheKeyTruncated = FALSE
 DevKeyCut = "none"
 DevAuthBeforeSemicolon = FALSE
 DevStarSkipsDeny = FALSE
 OnlyWide = FALSE
INIT Init
NEXT Next
INVARIANTS C37_ForwardedAuthorized
VIEW View
CHECK_DEADLOCK FALSE
