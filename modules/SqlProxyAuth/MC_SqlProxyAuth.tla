---- MODULE MC_SqlProxyAuth ----
EXTENDS SqlProxyAuth
====
