---- MODULE Trace_Handler ----
(* Conformance layer: every recorded request / environment change on the real handler must be the same   *)
(* step of Handler.tla: same reply code per item (requests that pass the handler's guards to the           *)
(* coordinator: any non-authorization code), same record-data flags and lease observations, every changed  *)
(* state piece inside the request's predicted effect class, and the projected store (topics, partition     *)
(* counts, next offsets) equal to the model's.                                                             *)
EXTENDS MC_Handler
TraceLog == ndJsonDeserialize("trace.ndjson")
VARIABLE l
tvars == <<vars, l>>
E == TraceLog[l]
Range(s) == {s[i] : i \in DOMAIN s}
Pairs(s) == {<<p[1], p[2]>> : p \in Range(s)}
Cur(ev) == l <= Len(TraceLog) /\ E.ev = ev /\ l' = l + 1
StMatch(st) == /\ topics' = DOMAIN st.topics
               /\ \A t \in topics' : nparts'[t] = st.topics[t]
               /\ \A t \in topics' : \A p \in 0..(nparts'[t] - 1) : recs'[<<t, p>>] = st.offs[t][p + 1]
TInit == Init /\ l = 1 /\ TLCSet(7, 0)
TReset == /\ Cur("Reset") /\ E.leasing = Leasing
          /\ auto' = E.auto
          /\ topics' = Known /\ nparts' = [t \in Topics |-> IF t \in Known THEN NP ELSE 0]
          /\ recs' = [x \in TP |-> 0] /\ opened' = {} /\ health' = "healthy" /\ storeUp' = TRUE
          /\ etcdOwner' = [x \in TP |-> ""] /\ aOwns' = {} /\ closed' = FALSE /\ leaseDown' = FALSE
          /\ sessDead' = FALSE /\ monParked' = FALSE /\ bOwns' = {} /\ a0Used' = FALSE /\ aclCache' = {}
          /\ last' = [api |-> "init", perms |-> Acl({}, {}, FALSE), leasing |-> Leasing, storeUp |-> TRUE, leaseUp |-> TRUE, items |-> <<>>, changed |-> {}]
          /\ nreq' = 0 /\ nenv' = 0 /\ done' = FALSE /\ hist' = <<>>
          /\ StMatch(E.st)
ItemMatch(m, r) == /\ m.name = r.name /\ m.part = r.part /\ r.replied
                   /\ IF m.code = Backend THEN r.code \notin {29, 30, 31} ELSE m.code = r.code
                   /\ m.data = r.data /\ m.owner0 = r.owner0 /\ m.owns1 = r.owns1 /\ m.owner1 = r.owner1 /\ m.foreign = r.foreign
TReq == /\ Cur("Req")
        /\ Req(E.mapi, E.tg, Acl(Pairs(E.perms.allow), Pairs(E.perms.deny), E.perms.dflt))
        /\ health = E.health /\ storeUp = E.storeUp
        /\ Len(last'.items) = Len(E.items)
        /\ \A i \in DOMAIN E.items : ItemMatch(last'.items[i], E.items[i])
        /\ Range(E.changed) \subseteq last'.changed
        /\ StMatch(E.st)
TReqMid == /\ Cur("ReqMid")
           /\ \E i \in 1..NPart : /\ PartSeq[i][1] = E.tg[1][1] /\ PartSeq[i][2] = E.tg[1][2]
                                  /\ ReqMid(i, Acl(Pairs(E.perms.allow), Pairs(E.perms.deny), E.perms.dflt), E.mid)
           /\ health = E.health /\ storeUp = E.storeUp
           /\ Len(E.items) = 1 /\ ItemMatch(last'.items[1], E.items[1])
           /\ Range(E.changed) \subseteq last'.changed
           /\ StMatch(E.st)
TOld == Cur("OldIncarnation") /\ E.owner = "A0" /\ \E i \in 1..NPart : ToString(i) = E.arg /\ OldIncarnation(i)
TSetHealth == Cur("SetHealth") /\ SetHealth(E.arg) /\ E.health = E.arg
TSetStore == Cur("SetStore") /\ SetStore(E.arg = "up")
TForeign == Cur("ForeignAcquire") /\ E.owner = "B" /\ \E i \in 1..NPart : ToString(i) = E.arg /\ ForeignAcquire(i)
TClose == Cur("CloseLease") /\ CloseLease
TLeaseDown == Cur("LeaseDown") /\ LeaseDown
TSessionExpire == Cur("SessionExpire") /\ SessionExpire
TMonitorRun == Cur("MonitorRun") /\ MonitorRun
Consumed == TLCSet(7, IF TLCGet(7) < l THEN l ELSE TLCGet(7))
TNext == (TReset \/ TReq \/ TSetHealth \/ TSetStore \/ TForeign \/ TClose \/ TLeaseDown \/ TSessionExpire \/ TMonitorRun \/ TReqMid \/ TOld) /\ Consumed
TSpec == TInit /\ [][TNext]_tvars
Reached == PrintT(<<"CONF", ToJson([reached |-> TLCGet(7), total |-> Len(TraceLog)])>>)
====
