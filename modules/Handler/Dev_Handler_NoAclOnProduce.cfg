CONSTANTS
 TopicSeq <- TwoTopics
 Known <- KnownTk
 NP = 2
 Groups <- TwoGroups
 Apis <- AllApis
 MaxItems = 1
 MaxReq = 1
 MaxEnv = 0
 Leasing = FALSE
 AutoSet <- BothAuto
 RichPerms = FALSE
 FixMetaAcl = TRUE
 DevNoAclOn <- NoAclProduce
 DevGateAfterAppend = "none"
 DevLeaseCheckSkipped = FALSE
 DevFetchAclOnRequestName = FALSE
 DevStaleOwnedOnSessionReplace = FALSE
 DevLeaseErrMisindexed = FALSE
 MidOn = FALSE
 DevAclCacheNoAction = FALSE
 DevLateAcquireAfterRelease = FALSE
 DevReacquireUnconditional = FALSE
INIT Init
NEXT Next
INVARIANTS C24_NoEffect C24_AuthError C24_NoLeak
VIEW View
CHECK_DEADLOCK FALSE
