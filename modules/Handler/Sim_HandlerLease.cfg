CONSTANTS
 TopicSeq <- TwoTopics
 Known <- KnownTk
 NP = 2
 Groups <- TwoGroups
 Apis <- DataApis
 MaxItems = 3
 MaxReq = 4
 MaxEnv = 4
 Leasing = TRUE
 AutoSet <- BothAuto
 RichPerms = FALSE
 FixMetaAcl = TRUE
 DevNoAclOn <- NoApis
 DevGateAfterAppend = "none"
 DevLeaseCheckSkipped = FALSE
 DevFetchAclOnRequestName = FALSE
 DevStaleOwnedOnSessionReplace = FALSE
 DevLeaseErrMisindexed = FALSE
 MidOn = TRUE
 DevAclCacheNoAction = FALSE
 DevLateAcquireAfterRelease = FALSE
 DevReacquireUnconditional = FALSE
INIT Init
NEXT Next
INVARIANTS EmitSched C19_AckOnlyIfHeld C19_NoWriteUnlessHeld C19_RefusalCode C19_NotLeaderForOtherOwner C24_NoEffect C24_AuthError C24_NoLeak

CHECK_DEADLOCK FALSE
