CONSTANTS
 TopicSeq <- TwoTopics
 Known <- KnownTk
 NP = 2
 Groups <- TwoGroups
 Apis <- AllApis
 MaxItems = 2
 MaxReq = 1
 MaxEnv = 0
 Leasing = FALSE
 AutoSet <- BothAuto
 RichPerms = TRUE
 FixMetaAcl = TRUE
 DevNoAclOn <- NoApis
 DevGateAfterAppend = "none"
 DevLeaseCheckSkipped = FALSE
 DevFetchAclOnRequestName = FALSE
 DevStaleOwnedOnSessionReplace = FALSE
 DevLeaseErrMisindexed = FALSE
 MidOn = FALSE
 DevAclCacheNoAction = FALSE
 DevLateAcquireAfterRelease = FALSE
 DevReacquireUnconditional = FALSE
INIT Init
NEXT Next
INVARIANTS EmitSched C24_NoEffect C24_AuthError C24_NoLeak

CHECK_DEADLOCK FALSE
