---- MODULE Obs_Handler ----
(* Observation layer for C19 and C24: no model actions.  Every Req line recorded on the real handler is   *)
(* turned into the record rq of HandlerProps (reply codes, record-data flags, changed state pieces, lease  *)
(* observations, the principal's permissions as configured in the real authorizer) and the property        *)
(* predicates are evaluated on it.  Violations are accumulated and printed once.                           *)
EXTENDS Integers, Sequences, FiniteSets, TLC, Json
TraceLog == ndJsonDeserialize("trace.ndjson")
VARIABLES l, viol
ovars == <<l, viol>>
Range(s) == {s[i] : i \in DOMAIN s}
Pairs(s) == {<<p[1], p[2]>> : p \in Range(s)}
RqOf(e) == [api |-> e.api, perms |-> [allow |-> Pairs(e.perms.allow), deny |-> Pairs(e.perms.deny), dflt |-> e.perms.dflt], leasing |-> e.leasing,
            storeUp |-> e.storeUp, leaseUp |-> e.leaseUp, items |-> e.items, changed |-> Range(e.changed)]
P(e) == INSTANCE HandlerProps WITH rq <- RqOf(e)
Names == <<"C24_NoEffect", "C24_AuthError", "C24_NoLeak", "C19_AckOnlyIfHeld", "C19_NoWriteUnlessHeld", "C19_RefusalCode", "C19_NotLeaderForOtherOwner">>
Holds(e, n) == CASE n = "C24_NoEffect" -> P(e)!C24_NoEffect
                 [] n = "C24_AuthError" -> P(e)!C24_AuthError
                 [] n = "C24_NoLeak" -> P(e)!C24_NoLeak
                 [] n = "C19_AckOnlyIfHeld" -> P(e)!C19_AckOnlyIfHeld
                 [] n = "C19_NoWriteUnlessHeld" -> P(e)!C19_NoWriteUnlessHeld
                 [] n = "C19_RefusalCode" -> P(e)!C19_RefusalCode
                 [] n = "C19_NotLeaderForOtherOwner" -> P(e)!C19_NotLeaderForOtherOwner
OInit == l = 0 /\ viol = {}
Step ==
  /\ l < Len(TraceLog) /\ l' = l + 1
  /\ LET e == TraceLog[l + 1] IN
     /\ viol' = IF e.ev \notin {"Req", "ReqMid"} THEN viol
                ELSE viol \cup {<<l + 1, n>> : n \in {m \in Range(Names) : ~Holds(e, m)}}
     /\ (l' = Len(TraceLog)) => PrintT(<<"OBS", ToJson([consumed |-> l', viol |-> viol'])>>)
OSpec == OInit /\ [][Step]_ovars
====
