CONSTANTS
 TopicSeq <- TwoTopics
 Known <- KnownTk
 NP = 2
 Groups <- TwoGroups
 Apis <- DataApis
 MaxItems = 3
 MaxReq = 2
 MaxEnv = 2
 Leasing = TRUE
 AutoSet <- BothAuto
 RichPerms = FALSE
 FixMetaAcl = TRUE
 DevNoAclOn <- NoApis
 DevGateAfterAppend = "none"
 DevLeaseCheckSkipped = FALSE
 DevFetchAclOnRequestName = FALSE
 DevStaleOwnedOnSessionReplace = FALSE
 DevLeaseErrMisindexed = FALSE
 MidOn = FALSE
 DevAclCacheNoAction = FALSE
 DevLateAcquireAfterRelease = FALSE
 DevReacquireUnconditional = FALSE
INIT Init
NEXT Next
INVARIANTS C24_NoEffect C24_AuthError C24_NoLeak C19_AckOnlyIfHeld C19_NoWriteUnlessHeld C19_RefusalCode C19_NotLeaderForOtherOwner OwnsImpliesKey KnownHavePartitions Exclusive
VIEW View
CHECK_DEADLOCK FALSE
