---- MODULE MC_Handler ----
EXTENDS Handler
TwoTopics == <<"tk", "tu">>
KnownTk == {"tk"}
TwoGroups == {"gk", "gu"}
OneGroupSet == {"gk"}
AllApis == {"ApiVersions", "Metadata", "Produce", "Fetch", "FetchById", "FindCoordinator", "JoinGroup", "SyncGroup", "DescribeGroups",
            "ListGroups", "Heartbeat", "LeaveGroup", "OffsetCommit", "OffsetFetch", "OffsetForLeaderEpoch", "DescribeConfigs",
            "DescribeBrokerConfigs", "AlterConfigs", "CreatePartitions", "DeleteGroups", "CreateTopics", "DeleteTopics",
            "ListOffsets", "ListOffsetsLatest", "ListOffsetsEarliest"}
DataApis == {"Produce", "Fetch", "FetchById"}
ProduceOnly == {"Produce"}
BothAuto == {TRUE, FALSE}
AutoOn == {TRUE}
NoApis == {}
NoAclMetadata == {"Metadata"}
NoAclProduce == {"Produce"}
NoAclFetch == {"Fetch", "FetchById"}
NoAclListOffsets == {"ListOffsets", "ListOffsetsLatest", "ListOffsetsEarliest"}
NoAclOffsetForLeaderEpoch == {"OffsetForLeaderEpoch"}
NoAclDescribeConfigs == {"DescribeConfigs"}
NoAclDescribeBrokerConfigs == {"DescribeBrokerConfigs"}
NoAclAlterConfigs == {"AlterConfigs"}
NoAclCreatePartitions == {"CreatePartitions"}
NoAclCreateTopics == {"CreateTopics"}
NoAclDeleteTopics == {"DeleteTopics"}
NoAclJoinGroup == {"JoinGroup"}
NoAclSyncGroup == {"SyncGroup"}
NoAclHeartbeat == {"Heartbeat"}
NoAclLeaveGroup == {"LeaveGroup"}
NoAclOffsetCommit == {"OffsetCommit"}
NoAclOffsetFetch == {"OffsetFetch"}
NoAclDescribeGroups == {"DescribeGroups"}
NoAclListGroups == {"ListGroups"}
NoAclDeleteGroups == {"DeleteGroups"}
====
