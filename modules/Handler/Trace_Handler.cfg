CONSTANTS
 TopicSeq <- TwoTopics
 Known <- KnownTk
 NP = 2
 Groups <- TwoGroups
 Apis <- AllApis
 MaxItems = 3
 MaxReq = 1000000
 MaxEnv = 1000000
 Leasing = FALSE
 AutoSet <- BothAuto
 RichPerms = FALSE
 FixMetaAcl = TRUE
 DevNoAclOn <- NoApis
 DevGateAfterAppend = "none"
 DevLeaseCheckSkipped = FALSE
 DevFetchAclOnRequestName = FALSE
 DevStaleOwnedOnSessionReplace = FALSE
 DevLeaseErrMisindexed = FALSE
 MidOn = TRUE
 DevAclCacheNoAction = FALSE
 DevLateAcquireAfterRelease = FALSE
 DevReacquireUnconditional = FALSE
INIT TInit
NEXT TNext
POSTCONDITION Reached
CHECK_DEADLOCK FALSE
