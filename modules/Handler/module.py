"""Handler.tla — C19, C24 (cmd/broker/main.go handler.Handle; pkg/metadata/partition_lease.go)."""
import copy, json, os, random, re
from lib import tlc as T, layers, gorun
from lib.common import Broken, Violation, verdict, save_replay

PROPS = {
    "C19": {
        "text": "Handler.tla models handler.Handle at request granularity with the guard order of handleProduce (leases for all partitions first, then per topic ACL, per partition store availability, lease result, S3 health, open log, append, flush). Per partition the lease outcome is one of owned-already / acquired / other-owner / shutting-down / etcd-unreachable. TLC checks exhaustively (requests of up to 3 partitions over known and unknown topics, up to 2 requests after up to 2 environment changes) that a produce is acknowledged or written only under a held lease and is otherwise refused with NOT_LEADER_OR_FOLLOWER / a retriable code. TLC-enumerated requests and environment changes (every single request after every environment prefix, simulation runs, counterexamples of the named wrong designs) are replayed on the real handler with a real EtcdStore and two real PartitionLeaseManagers on embedded etcd; TLC validates the recorded traces (layer O: the C19 predicates on reply codes, objects/offsets written per partition and lease ownership read from the manager and from etcd; layer C: step-by-step conformance).",
        "note": "Trusted: TLC; embedded etcd; 'held when it appended' is observed as: the manager reports ownership and the etcd key names this broker immediately after Handle returns (nothing releases a lease during a request; TTL 10 s vs. millisecond requests). Lease loss by etcd unavailability is induced by closing the lease manager's etcd client (global, not per partition). Requests are sequential (one Handle call at a time); lease-protocol races are C18 (Lease.tla).",
        "technique": "TLA+ model (Handler.tla) + TLC exhaustive check + replay of TLC-enumerated requests into handler.Handle (EtcdStore, PartitionLeaseManager, embedded etcd) + TLC trace validation (observation and conformance layers)",
    },
    "C24": {
        "text": "Handler.tla carries the table request type -> ACL check exactly as dispatched in handler.Handle (21 request types incl. both ListOffsets flavours and both DescribeConfigs resource types; all-or-nothing checks; the two auto-create paths) and the effect class of every request type. TLC checks exhaustively that whatever a principal is not authorized for changes no topic, record, offset, group, commit or configuration, returns no record data and is answered with an authorization error, for auto-create on and off. TLC enumerates every single request (request type x targets over known/unknown topics and groups x every subset of the relevant permissions, with and without all irrelevant permissions) and simulates request sequences; all are replayed on the real handler (InMemoryStore, MemoryS3Client, real GroupCoordinator, real acl.Authorizer with default deny); the store, bucket, groups and committed offsets are projected before/after every request and TLC validates the traces (layer O: C24 predicates on observed codes/changes; layer C: conformance of codes, data flags, effect class and store contents).",
        "note": "Trusted: TLC; the harness' projection of store/bucket/group/commit state into strings compared before/after (a changed piece = differing strings). 'Required permission' per request type is the one handler.Handle dispatches on; Metadata needs none to be answered, but creating a topic through it requires some permission under which the broker creates topics at all (admin, or produce/fetch on that topic). Group-lease guard not configured (nil manager); acks=0 produce not generated; one protocol version per request type.",
        "technique": "TLA+ model (Handler.tla) + TLC exhaustive check + replay of TLC-enumerated requests into handler.Handle + TLC trace validation (observation and conformance layers)",
    },
}
PRED = {"C19": ["C19_AckOnlyIfHeld", "C19_NoWriteUnlessHeld", "C19_RefusalCode", "C19_NotLeaderForOtherOwner"],
        "C24": ["C24_NoEffect", "C24_AuthError", "C24_NoLeak"]}
ACL_APIS = ["Produce", "Fetch", "FetchById", "ListOffsets", "OffsetForLeaderEpoch", "DescribeConfigs", "DescribeBrokerConfigs", "AlterConfigs",
            "CreatePartitions", "CreateTopics", "DeleteTopics", "JoinGroup", "SyncGroup", "Heartbeat", "LeaveGroup", "OffsetCommit",
            "OffsetFetch", "DescribeGroups", "ListGroups", "DeleteGroups"]
DEV = {
    "C24": dict([("Handler_MetaNoAcl", "C24_"), ("Handler_AclAfterAppend", "C24_"), ("Handler_FetchAclOnRequestName", "C24_"), ("Handler_AclCacheNoAction", "C24_")] + [("Handler_NoAclOn" + a, "C24_") for a in ACL_APIS if a != "FetchById"]),
    "C19": {"HandlerLease_GateAfterAppend": "C19_", "HandlerLease_LeaseCheckSkipped": "C19_", "HandlerLease_StaleOwnedOnSessionReplace": "C19_",
            "HandlerLease_LeaseErrMisindexed": "C19_", "HandlerLease_LateAcquireAfterRelease": "C19_",
            "HandlerLease_ReacquireUnconditional": "C19_"},
}
QUICK_DEVS = ["Handler_MetaNoAcl", "Handler_AclAfterAppend", "Handler_FetchAclOnRequestName", "Handler_AclCacheNoAction", "Handler_NoAclOnProduce", "Handler_NoAclOnFetch", "Handler_NoAclOnOffsetCommit", "Handler_NoAclOnCreateTopics"]
TRACE_CFG = """CONSTANTS
 TopicSeq <- TwoTopics
 Known <- KnownTk
 NP = 2
 Groups <- TwoGroups
 Apis <- AllApis
 MaxItems = 3
 MaxReq = 1000000
 MaxEnv = 1000000
 Leasing = %s
 AutoSet <- BothAuto
 RichPerms = FALSE
 FixMetaAcl = TRUE
 DevNoAclOn <- NoApis
 DevGateAfterAppend = "none"
 DevLeaseCheckSkipped = FALSE
 DevFetchAclOnRequestName = FALSE
 DevStaleOwnedOnSessionReplace = FALSE
 DevLeaseErrMisindexed = FALSE
 MidOn = TRUE
 DevAclCacheNoAction = FALSE
 DevLateAcquireAfterRelease = FALSE
 DevReacquireUnconditional = FALSE
INIT TInit
NEXT TNext
POSTCONDITION Reached
CHECK_DEADLOCK FALSE
"""
HARNESS = lambda: os.path.join(DIR, "harness", "handler_verif_test.go")


def harness(ctx, scheds, tag, timeout=1500):
    sp = os.path.join(ctx.scratch, "sched-%s.ndjson" % tag)
    tp = os.path.join(ctx.scratch, "trace-%s.ndjson" % tag)
    gorun.write_ndjson(sp, scheds)
    rc, out = gorun.go_test(ctx, ".", "./cmd/broker/", {"cmd/broker/zz_verif_handler_test.go": HARNESS()},
                            "^TestVerifHandlerReplay$", env={"VERIF_SCHEDULES": sp, "VERIF_TRACE_OUT": tp}, timeout=timeout)
    if rc != 0 or "replayed %d schedules" % len(scheds) not in out:
        raise Broken("handler harness failed:\n" + out[-3000:])
    return gorun.read_ndjson(tp)


def simulate(ctx, d, spec, cfg, num, depth, seed, timeout=1200):
    """tlc -simulate; EmitSched prints [header..., steps] at every visited state: keep the maximal step sequences."""
    r = T.tlc(ctx, d, spec, cfg, workers=1, simulate="num=%d" % num, depth=depth, seed=seed, deadlock_off=True, timeout=timeout)
    if r.violated:
        raise Broken("simulation config %s reported a violation:\n%s" % (cfg, r.out[-2000:]))
    hs = r.prints.get("SCHED", [])
    out, seen = [], set()
    for i, h in enumerate(hs):
        nxt = hs[i + 1] if i + 1 < len(hs) else None
        if nxt is not None and len(nxt["steps"]) > len(h["steps"]) and nxt["steps"][:len(h["steps"])] == h["steps"]:
            continue
        k = json.dumps(h, sort_keys=True)
        if h["steps"] and k not in seen:
            seen.add(k)
            out.append(h)
    return out, r


def split(rows):
    runs, cur = [], None
    for r in rows:
        if r["ev"] == "Reset":
            cur = []
            runs.append(cur)
        cur.append(r)
    return runs


def as_sched(h, mode):
    return {"mode": mode, "auto": bool(h["auto"]), "leasing": mode == "etcd", "steps": h["steps"]}


def dev_schedule(ctx, d, name, mode):
    cfg = "Dev_%s.cfg" % name
    h, r = T.counterexample_hist(ctx, d, "MC_Handler.tla", cfg, var="hist", timeout=900, workers=4)
    return h, r, (json.load(open(os.path.join(d, "ce-Dev_%s.json" % name)))["counterexample"]["state"][-1][1]["auto"] if h is not None else None)


def conform_all(ctx, runs, leasing, name):
    """Layer C over the concatenated runs; a rejected run is recorded and dropped, the rest is re-validated (<= 4 rounds)."""
    conf = {"accepted": 0, "rejected": 0, "first_rejection": None, "rounds": 0, "unvalidated": 0}
    pending = list(range(len(runs)))
    while pending and conf["rounds"] < 4:
        conf["rounds"] += 1
        sub, owner = [], []
        for i in pending:
            sub += runs[i]
            owner += [i] * len(runs[i])
        reached, total, _ = layers.conform(ctx, DIR, "Trace_Handler.tla", "Trace_Handler.cfg", sub, name="%s%d" % (name, conf["rounds"]),
                                           cfg_text=TRACE_CFG % ("TRUE" if leasing else "FALSE"), timeout=3000)
        if reached >= total:
            conf["accepted"] += len(pending)
            pending = []
            break
        bad = owner[reached]          # the run containing the first line that could not be matched
        conf["rejected"] += 1
        conf["first_rejection"] = conf["first_rejection"] or {"schedule": bad, "line": sub[reached]}
        conf["accepted"] += sum(1 for i in pending if i < bad)
        pending = [i for i in pending if i > bad]
    conf["unvalidated"] = len(pending)
    return conf


def check(ctx, prop):
    quick = ctx.quick()
    rnd = random.Random(ctx.seed)
    lease = prop == "C19"
    mode = "etcd" if lease else "mem"
    fam = "HandlerLease" if lease else "Handler"
    d = T.stage(ctx, DIR, "mc")
    mc = T.model_check(ctx, d, "MC_Handler.tla", "MC_%s_%s.cfg" % (fam, ctx.tier), coverage=not quick, timeout=2400, workers=8)
    ctx.log("model: %d distinct states, depth %d" % (mc.distinct, mc.depth))
    mc2 = None
    if lease:   # lease sessions: expiry, monitor, replacement (three single-partition produces, three environment steps)
        mc2 = T.model_check(ctx, d, "MC_Handler.tla", "MC_HandlerLeaseSess.cfg", coverage=not quick, timeout=2400, workers=8)
        ctx.log("session model: %d distinct states, depth %d" % (mc2.distinct, mc2.depth))
        mc3 = T.model_check(ctx, d, "MC_Handler.tla", "MC_HandlerLeaseMid.cfg", coverage=not quick, timeout=2400, workers=8)
        ctx.log("mid-acquisition model: %d distinct states, depth %d" % (mc3.distinct, mc3.depth))
        mc2.distinct += mc3.distinct; mc2.generated += mc3.generated; mc2.depth = max(mc2.depth, mc3.depth); mc2.out += mc3.out
    scheds, labels = [], []
    devs = sorted(DEV[prop])
    if quick and not lease:
        rest = [x for x in devs if x not in QUICK_DEVS]
        devs = QUICK_DEVS[:4] + rnd.sample(QUICK_DEVS[4:] + rest, 2)
    for name in devs:
        h, r, auto = dev_schedule(ctx, d, name, mode)
        if h is None or not any(v.startswith(DEV[prop][name]) for v in r.violated):
            raise Broken("deviation %s does not violate a %s predicate in the model (vacuous deviation, or TLC failed):\n%s" % (name, prop, r.out[-1500:]))
        scheds.append(as_sched({"auto": auto, "steps": h}, mode)); labels.append("dev:" + name)
    ndev = len(scheds)
    # every single request (C24) / every single produce after every environment prefix (C19), enumerated by TLC
    r = T.tlc(ctx, d, "MC_Handler.tla", "Enum_%s.cfg" % fam, workers=4, timeout=1200, deadlock_off=True)
    if r.violated or not r.prints.get("SCHED"):
        raise Broken("enumeration config failed:\n" + r.out[-2000:])
    enum = [h for h in r.prints["SCHED"] if h["steps"] and h["steps"][-1]["a"] in ("Req", "ReqMid")]
    enum.sort(key=lambda h: json.dumps(h, sort_keys=True))
    if lease:
        k = 250 if quick else 2000
        if len(enum) > k:
            enum = rnd.sample(enum, k)
    for h in enum:
        scheds.append(as_sched(h, mode)); labels.append("enum")
    nsim = (30 if quick else 300) if lease else (60 if quick else 1500)
    hs, _ = simulate(ctx, d, "MC_Handler.tla", "Sim_%s.cfg" % fam, num=nsim, depth=8, seed=ctx.seed)
    for h in hs:
        if h["steps"]:
            scheds.append(as_sched(h, mode)); labels.append("sim")
    ctx.log("%d schedules (%d deviation counterexamples, %d enumerated, %d simulated)" % (len(scheds), ndev, len(enum), len(scheds) - ndev - len(enum)))
    rows = harness(ctx, scheds, "main")
    runs = split(rows)
    if len(runs) != len(scheds):
        raise Broken("harness recorded %d runs for %d schedules" % (len(runs), len(scheds)))
    reqs = [r for r in rows if r["ev"] in ("Req", "ReqMid")]
    vac = vacuity(prop, reqs, rows)
    consumed, viol, _ = layers.observe(ctx, DIR, "Obs_Handler.tla", "Obs_Handler.cfg", rows, timeout=3000)
    violations, first = [], set()
    for line, inv in sorted(viol):
        if inv not in PRED[prop]:
            continue
        ev = rows[line - 1]
        idx = sum(1 for r in rows[:line] if r["ev"] == "Reset") - 1
        sig = "%s@%s" % (inv, ev["mapi"])
        if sig in first:
            continue
        first.add(sig)
        path = save_replay(prop, "sched-%s.json" % re.sub(r"\W", "_", sig), {"schedule": scheds[idx], "label": labels[idx], "trace": runs[idx], "line": ev})
        bad = [it for it in ev["items"]]
        violations.append(Violation(prop, sig, "%s false on the real handler: %s %s by a principal with permissions %s (auto-create %s): replies %s, changed %s [schedule %s, replay %s]" % (
            inv, ev["mapi"], json.dumps(ev["tg"]), json.dumps(ev["perms"]), ev["auto"], json.dumps([[it["name"], it["part"], it["code"], it["data"]] for it in bad]), json.dumps(ev["changed"]), labels[idx], path),
            {"schedule": scheds[idx], "event": ev}))
    conf = conform_all(ctx, runs, lease, "conf")
    st = self_test(ctx, prop, runs, lease)
    level = "model_checking"
    drift = conf["rejected"] > 0 or conf["unvalidated"] > 0
    if drift and not violations:
        level = "exploration"
        ctx.log("DRIFT: conformance layer rejected a trace although %s held: %s" % (prop, json.dumps(conf["first_rejection"])[:1500]))
    cov = {
        "states": mc.distinct + (mc2.distinct if mc2 else 0), "transitions": mc.generated + (mc2.generated if mc2 else 0), "depth": max(mc.depth, mc2.depth if mc2 else 0), "exhaustive": True,
        "model_config": "MC_%s_%s.cfg" % (fam, ctx.tier) + (" + MC_HandlerLeaseSess.cfg + MC_HandlerLeaseMid.cfg" if mc2 else ""),
        "traces_validated_against_impl": len(runs), "trace_events": len(rows),
        "evaluations": len(reqs), "distinct_nontrivial": vac["nontrivial"], "vacuity": vac,
        "rule": ("C24: evaluations = requests sent through handler.Handle and judged; non-trivial = distinct (request, permissions, auto-create, environment, store contents) cases in which at least one addressed item is NOT authorized for the principal (the property's antecedent holds)"
                 if not lease else
                 "C19: evaluations = requests judged; non-trivial = distinct (request, lease state per partition, environment, store contents) produce cases with at least one partition whose lease is not held after the request (other owner / shut down / etcd unreachable)"),
        "deviation_schedules": devs, "conformance": ("drift" if drift else "accepted"), "conformance_detail": conf,
        "binding_self_test": st,
        "samples": [scheds[0], scheds[ndev], scheds[-1], runs[0][:3]],
    }
    if not quick:
        cov["action_coverage"] = {k: v[1] for k, v in mc.action_coverage().items()}
        if mc2:
            for k, v in mc2.action_coverage().items():
                cov["action_coverage"][k] = cov["action_coverage"].get(k, 0) + v[1]
        need = ["Req", "SetHealth", "SetStore"] + (["ForeignAcquire", "CloseLease", "LeaseDown", "SessionExpire", "MonitorRun", "OldIncarnation", "ReqMid"] if lease else [])
        dead = [k for k in need if cov["action_coverage"].get(k, 0) == 0]
        if dead:
            raise Broken("vacuous model run: actions never taken: %s" % dead)
    assumptions = ["requests are issued one at a time (Handle is synchronous); concurrency inside the log and the lease protocol is covered by Log.tla / Lease.tla",
                   "the principal is identified by the request's client id and holds exactly the generated allow rules; default policy deny",
                   "state pieces are compared as strings projected by the harness before and after each request"]
    if lease:
        assumptions.append("lease held at append time is observed right after Handle returns (manager Owns + etcd key owner); nothing releases leases during a request")
    return verdict(ctx, violations, level, cov, assumptions)


def authorized(ev, it):
    """Only used to count non-vacuous cases for evidence (the verdict is TLC's)."""
    need = {"Produce": "produce", "Fetch": "fetch", "ListOffsets": "fetch", "OffsetForLeaderEpoch": "fetch", "DescribeConfigs": "fetch",
            "JoinGroup": "group_write", "SyncGroup": "group_write", "Heartbeat": "group_write", "LeaveGroup": "group_write", "OffsetCommit": "group_write",
            "OffsetFetch": "group_read", "DescribeGroups": "group_read", "ListGroups": "group_read", "DeleteGroups": "group_admin",
            "AlterConfigs": "admin", "CreatePartitions": "admin", "CreateTopics": "admin", "DeleteTopics": "admin", "DescribeBrokerConfigs": "admin"}.get(ev["api"] if ev["mapi"] != "DescribeBrokerConfigs" else "DescribeBrokerConfigs")
    allow = {tuple(p) for p in ev["perms"]["allow"]}
    deny = {tuple(p) for p in ev["perms"]["deny"]}
    if need is None:
        return True
    name = "cluster" if need == "admin" else it["name"]
    return (need, name) not in deny and (need, "*") not in deny and ((need, name) in allow or (need, "*") in allow or ev["perms"]["dflt"])


def case_key(r):
    """Identity of a judged case: request, permissions, configuration and the environment the guards read."""
    return json.dumps([r["mapi"], r["tg"], r["perms"], r["auto"], r["health"], r["storeUp"], r["leaseUp"],
                       [[it["owner0"], it["owns1"], it["owner1"]] for it in r["items"]], r["st"]], sort_keys=True)


def vacuity(prop, reqs, rows=()):
    if not reqs:
        raise Broken("vacuous run: no request was replayed")
    if prop == "C24":
        unauth = [r for r in reqs if any(not authorized(r, it) for it in r["items"])]
        apis = {r["mapi"] for r in unauth}
        missing = [a for a in ACL_APIS if a not in apis and not (a == "ListOffsets" and {"ListOffsetsLatest", "ListOffsetsEarliest"} & apis)]
        changed = sum(1 for r in reqs if r["changed"])
        data = sum(1 for r in reqs if any(it["data"] for it in r["items"]))
        byid = [r for r in unauth if r["mapi"] == "FetchById" and r["perms"]["deny"]]
        if missing or not changed or not data or not byid:
            raise Broken("vacuous run: no unauthorized request for %s / requests changing state: %d / replies with record data: %d" % (missing, changed, data))
        return {"nontrivial": len({case_key(r) for r in unauth}), "unauthorized_requests": len(unauth), "unauthorized_by_api": {a: sum(1 for r in unauth if r["mapi"] == a) for a in sorted(apis)},
                "requests_changing_state": changed, "replies_with_record_data": data,
                "metadata_unknown_topic_autocreate_unprivileged": sum(1 for r in reqs if r["mapi"] == "Metadata" and r["auto"] and not r["perms"]["allow"] and not r["perms"]["dflt"]),
                "unauthorized_by_deny_rule": sum(1 for r in unauth if r["perms"]["deny"]),
                "fetch_by_topic_id_unauthorized": sum(1 for r in unauth if r["mapi"] == "FetchById")}
    prod = [r for r in reqs if r["api"] == "Produce" and r["leasing"]]
    nh = lambda it: not (it["owns1"] and it["owner1"] == "A" and not it["foreign"])
    notheld = [r for r in prod if any(nh(it) for it in r["items"])]
    mixed = [r for r in prod if any(nh(it) for it in r["items"]) and any(not nh(it) for it in r["items"])]
    kinds = {"other": sum(1 for r in prod if any(it["owner0"] == "B" for it in r["items"])),
             "lease_etcd_down": sum(1 for r in prod if not r["leaseUp"]),
             "acked": sum(1 for r in prod if any(it["code"] == 0 for it in r["items"])),
             "not_leader_replies": sum(1 for r in prod if any(it["code"] == 6 for it in r["items"]))}
    kinds["session_expiries"] = sum(1 for r in rows if r["ev"] == "SessionExpire")
    kinds["monitor_runs"] = sum(1 for r in rows if r["ev"] == "MonitorRun")
    kinds["produces_with_step_inside_acquisition"] = sum(1 for r in rows if r["ev"] == "ReqMid")
    if not prod or not notheld or not mixed or not all(v for k, v in kinds.items() if k != "monitor_runs"):   # monitor runs: simulation only, informational
        raise Broken("vacuous run: produce=%d notheld=%d mixed=%d kinds=%s" % (len(prod), len(notheld), len(mixed), kinds))
    return dict(kinds, nontrivial=len({case_key(r) for r in notheld}), produce_with_unheld_partition=len(notheld), mixed_held_and_not_held=len(mixed), leased_produce_requests=len(prod))


def self_test(ctx, prop, runs, lease):
    """Corrupt recorded fields: layer O must flag it, layer C must reject a wrong reply code."""
    out = {}
    if not lease:
        ri = next(i for i, run in enumerate(runs) if any(r["ev"] == "Req" and r["api"] == "Produce" and r["changed"] and all(it["code"] == 0 for it in r["items"]) for r in run))
        bad = copy.deepcopy(runs[ri])
        tgt = next(r for r in bad if r["ev"] == "Req" and r["api"] == "Produce" and r["changed"])
        tgt["perms"] = {"allow": [], "deny": [], "dflt": False}
        _, viol, _ = layers.observe(ctx, DIR, "Obs_Handler.tla", "Obs_Handler.cfg", bad, name="selfO")
        if not any(v[1] == "C24_NoEffect" for v in viol) or not any(v[1] == "C24_AuthError" for v in viol):
            raise Broken("binding self-test: observation layer did not flag a produce that changed state without permission")
        out["observation_layer_flags_unauthorized_effect"] = True
    else:
        ri = next(i for i, run in enumerate(runs) if any(r["ev"] == "Req" and r["api"] == "Produce" and any(it["code"] == 0 and it["owns1"] for it in r["items"]) for r in run))
        bad = copy.deepcopy(runs[ri])
        tgt = next(r for r in bad if r["ev"] == "Req" and r["api"] == "Produce" and any(it["code"] == 0 and it["owns1"] for it in r["items"]))
        for it in tgt["items"]:
            it["owns1"], it["owner1"] = False, "B"
        _, viol, _ = layers.observe(ctx, DIR, "Obs_Handler.tla", "Obs_Handler.cfg", bad, name="selfO")
        if not any(v[1] == "C19_AckOnlyIfHeld" for v in viol):
            raise Broken("binding self-test: observation layer did not flag an ack without a held lease")
        out["observation_layer_flags_ack_without_lease"] = True
    bad = copy.deepcopy(runs[ri])
    tgt = [r for r in bad if r["ev"] in ("Req", "ReqMid")][-1]
    tgt["items"][0]["code"] = 87
    reached, total, _ = layers.conform(ctx, DIR, "Trace_Handler.tla", "Trace_Handler.cfg", bad, name="selfC", cfg_text=TRACE_CFG % ("TRUE" if lease else "FALSE"))
    if reached == total:
        raise Broken("binding self-test: conformance layer accepted a corrupted reply code")
    out["conformance_layer_rejects_corrupted_reply"] = True
    return out


def replay(ctx, prop, path):
    obj = json.load(open(path))
    sched = obj.get("schedule") or obj.get("detail", {}).get("schedule")
    rows = harness(ctx, [sched], "replay")
    _, viol, _ = layers.observe(ctx, DIR, "Obs_Handler.tla", "Obs_Handler.cfg", rows)
    for r in rows:
        print(json.dumps(r, sort_keys=True))
    rc = 0
    for line, inv in viol:
        if inv in PRED[prop]:
            print("VIOLATION property=%s replay=%s" % (prop, path))
            print("  %s false at line %d" % (inv, line))
            rc = 1
    return rc
