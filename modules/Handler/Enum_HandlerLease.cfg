CONSTANTS
 TopicSeq <- TwoTopics
 Known <- KnownTk
 NP = 2
 Groups <- TwoGroups
 Apis <- ProduceOnly
 MaxItems = 3
 MaxReq = 1
 MaxEnv = 2
 Leasing = TRUE
 AutoSet <- AutoOn
 RichPerms = FALSE
 FixMetaAcl = TRUE
 DevNoAclOn <- NoApis
 DevGateAfterAppend = "none"
 DevLeaseCheckSkipped = FALSE
 DevFetchAclOnRequestName = FALSE
 DevStaleOwnedOnSessionReplace = FALSE
 DevLeaseErrMisindexed = FALSE
 MidOn = FALSE
 DevAclCacheNoAction = FALSE
 DevLateAcquireAfterRelease = FALSE
 DevReacquireUnconditional = FALSE
INIT Init
NEXT Next
INVARIANTS EmitSched C19_AckOnlyIfHeld C19_NoWriteUnlessHeld C19_RefusalCode C19_NotLeaderForOtherOwner

CHECK_DEADLOCK FALSE
