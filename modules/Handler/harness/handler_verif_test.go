//go:build verif

package main

// Verification harness (injected with `go test -overlay`; not part of the repository).
// Drives the real handler.Handle with TLC-generated requests and environment changes and records one ndjson line
// per step: reply codes per addressed item, presence of record bytes, the set of projected state pieces that differ
// before/after the request (store, bucket, groups, committed offsets), lease observations, monitor rating.
//
//   mode "mem":  InMemoryStore + MemoryS3Client + real GroupCoordinator + real acl.Authorizer + real S3HealthMonitor
//   mode "etcd": EtcdStore on embedded etcd + real PartitionLeaseManager "A" (the broker) and "B" (another broker)

import (
	"bufio"
	"bytes"
	"context"
	"encoding/binary"
	"encoding/json"
	"errors"
	"fmt"
	"hash/fnv"
	"io"
	"log/slog"
	"os"
	"sort"
	"strconv"
	"strings"
	"sync"
	"sync/atomic"
	"testing"
	"time"

	"github.com/KafScale/platform/internal/testutil"
	"github.com/KafScale/platform/pkg/acl"
	"github.com/KafScale/platform/pkg/broker"
	"github.com/KafScale/platform/pkg/metadata"
	"github.com/KafScale/platform/pkg/protocol"
	"github.com/KafScale/platform/pkg/storage"
	"github.com/twmb/franz-go/pkg/kmsg"
	clientv3 "go.etcd.io/etcd/client/v3"
)

const (
	vhNP        = 2 // partitions of known / auto-created topics (NP of Handler.tla)
	vhPrincipal = "p"
	vhNS        = "default"
)

var vhTopicSeq = []string{"tk", "tu"}

type vhS3Cfg struct {
	ID   string `json:"id"`
	Lw   int    `json:"lw"`
	Lc   int    `json:"lc"`
	Ewn  int    `json:"ewn"`
	Ecn  int    `json:"ecn"`
	Ed   int    `json:"ed"`
	MaxN int    `json:"maxn"`
}

type vhStep struct {
	A      string          `json:"a"`
	Api    string          `json:"api"`
	Tg     [][]any         `json:"tg"`
	Perms  vhPerms         `json:"perms"`
	Arg    string          `json:"arg"`
	Lat    int             `json:"lat"`
	Err    bool            `json:"err"`
	Probe  string          `json:"probe"`
	Mid    string          `json:"mid"`
	S3Fail [][]any         `json:"s3fail"`
	S3Err  string          `json:"s3err"`
	Raw    json.RawMessage `json:"-"`
}

// vhPerms is the principal's ACL entry: allow / deny rules as [action, name] pairs and the default policy.
type vhPerms struct {
	Allow [][]string `json:"allow"`
	Deny  [][]string `json:"deny"`
	Dflt  bool       `json:"dflt"`
}

type vhSched struct {
	Mode    string   `json:"mode"`
	Auto    bool     `json:"auto"`
	Leasing bool     `json:"leasing"`
	S3Cfg   *vhS3Cfg `json:"s3cfg"`
	Steps   []vhStep `json:"steps"`
}

type vhTarget struct {
	name string
	part int32
}

// vhStore wraps the metadata store so the harness controls Available() (what handler.etcdAvailable reads).
type vhStore struct {
	metadata.Store
	up bool
}

func (s *vhStore) Available() bool { return s.up }

// vhS3 wraps the in-memory bucket: uploads for the partitions listed in fail are refused (both objects), and the
// rating of the real monitor is read at the start of every segment upload (= while the broker writes that partition).
type vhS3 struct {
	*storage.MemoryS3Client
	mu       sync.Mutex
	e        *vhEnv
	fail     map[string]bool   // "topic|partition"
	timeout  bool              // refuse with an error wrapping context.DeadlineExceeded (a hanging endpoint) instead of a plain error
	nfail    int               // refused upload calls (each one is recorded by the log as one failed S3 operation)
	healthAt map[string]string // "topic|partition" -> rating when its first upload (segment or index) started
}

func vhPartOfKey(key string) string {
	f := strings.Split(key, "/") // ns/topic/partition/object
	if len(f) < 4 {
		return ""
	}
	return f[1] + "|" + f[2]
}

func (s *vhS3) UploadSegment(ctx context.Context, key string, body []byte) error {
	pk := vhPartOfKey(key)
	st := string(s.e.h.s3Health.State())
	s.mu.Lock()
	if _, ok := s.healthAt[pk]; !ok {
		s.healthAt[pk] = st
	}
	refuse := s.fail[pk]
	if refuse {
		s.nfail++
	}
	s.mu.Unlock()
	if refuse {
		return s.refusal()
	}
	return s.MemoryS3Client.UploadSegment(ctx, key, body)
}

func (s *vhS3) UploadIndex(ctx context.Context, key string, body []byte) error {
	pk := vhPartOfKey(key)
	st := string(s.e.h.s3Health.State())
	s.mu.Lock()
	if _, ok := s.healthAt[pk]; !ok {
		s.healthAt[pk] = st
	}
	refuse := s.fail[pk]
	if refuse {
		s.nfail++
	}
	s.mu.Unlock()
	if refuse {
		return s.refusal()
	}
	return s.MemoryS3Client.UploadIndex(ctx, key, body)
}

func (s *vhS3) refusal() error {
	s.mu.Lock()
	defer s.mu.Unlock()
	if s.timeout {
		return fmt.Errorf("verif: injected S3 timeout: %w", context.DeadlineExceeded)
	}
	return vhBoom
}

func (s *vhS3) arm(fail []vhTarget, kind string) {
	s.mu.Lock()
	s.timeout = kind == "timeout"
	s.fail = map[string]bool{}
	for _, tg := range fail {
		s.fail[vhKey(tg.name, tg.part)] = true
	}
	s.nfail = 0
	s.healthAt = map[string]string{}
	s.mu.Unlock()
}

// vhGate parks the lease manager's monitor goroutine of one expired session (scheduler gate "lease.monitor").
type vhGate struct {
	point    string
	id       string
	parked   chan struct{}
	release  chan struct{}
	returned chan struct{}
	once     sync.Once
	relOnce  sync.Once
}

var vhCurGate atomic.Pointer[vhGate]

func vhGateFn(point, id string) {
	g := vhCurGate.Load()
	if g == nil || point != g.point || id != g.id {
		return
	}
	first := false
	g.once.Do(func() { first = true })
	if first {
		close(g.parked)
		<-g.release
		close(g.returned)
	}
}

type vhSample struct {
	lat time.Duration
	err bool
}

type vhEnv struct {
	t         *testing.T
	sched     vhSched
	h         *handler
	store     *vhStore
	s3        *storage.MemoryS3Client
	s3w       *vhS3
	gate      *vhGate
	fed       []vhSample
	hcfg      broker.S3HealthConfig
	member    string
	gen       int32
	corr      int32
	etcd      bool
	admin     *clientv3.Client
	cliA      *clientv3.Client
	cliB      *clientv3.Client
	leaseA    *metadata.PartitionLeaseManager
	leaseB    *metadata.PartitionLeaseManager
	estore    *metadata.EtcdStore
	leaseUp   bool
	sessDead  bool
	principal string
	cliA0     *clientv3.Client
	leaseA0   *metadata.PartitionLeaseManager
	a0Lease   int64
	nreq      int
}

func vhBatch() []byte {
	data := make([]byte, 70)
	binary.BigEndian.PutUint32(data[8:12], 58) // batch length
	binary.BigEndian.PutUint32(data[57:61], 1) // one record
	copy(data[61:], []byte("verif-rec"))
	return data
}

var vhBoom = errors.New("verif: injected S3 failure")

// installMonitor replaces the handler's monitor by a fresh real one fed with exactly the scheduled samples.
func (e *vhEnv) installMonitor() {
	m := broker.NewS3HealthMonitor(e.hcfg)
	from := 0
	if len(e.fed) > e.hcfg.MaxSamples {
		from = len(e.fed) - e.hcfg.MaxSamples
	}
	for _, s := range e.fed[from:] {
		var err error
		if s.err {
			err = vhBoom
		}
		m.RecordOperation("verif", s.lat, err)
	}
	e.h.s3Health = m
}

func vhRules(perms [][]string) []acl.Rule {
	rules := make([]acl.Rule, 0, len(perms))
	for _, p := range perms {
		action, name := p[0], p[1]
		var res acl.Resource
		switch action {
		case "produce", "fetch":
			res = acl.ResourceTopic
		case "group_read", "group_write", "group_admin":
			res = acl.ResourceGroup
		case "admin":
			res = acl.ResourceCluster
		default:
			res = acl.ResourceAny
		}
		rules = append(rules, acl.Rule{Action: acl.Action(action), Resource: res, Name: name})
	}
	return rules
}

func vhTargets(tg [][]any) []vhTarget {
	out := make([]vhTarget, 0, len(tg))
	for _, x := range tg {
		out = append(out, vhTarget{name: x[0].(string), part: int32(x[1].(float64))})
	}
	return out
}

// ---- projection of broker state into comparable strings, keyed "kind|name|partition"
func (e *vhEnv) project(ctx context.Context) (map[string]string, map[string]any) {
	p := map[string]string{}
	st := map[string]any{}
	topics := map[string]int{}
	meta, err := e.store.Store.Metadata(ctx, nil)
	if err != nil {
		e.t.Fatalf("project metadata: %v", err)
	}
	names := map[string]bool{}
	for _, n := range vhTopicSeq {
		names[n] = true
	}
	for _, tp := range meta.Topics {
		if tp.Topic != nil {
			names[*tp.Topic] = true
			topics[*tp.Topic] = len(tp.Partitions)
		}
	}
	offs := map[string][]int64{}
	known := 0
	for n := range names {
		if np, ok := topics[n]; ok {
			p["topic|"+n+"|-1"] = "parts=" + strconv.Itoa(np)
		} else {
			p["topic|"+n+"|-1"] = "-"
		}
		if cfg, err := e.store.Store.FetchTopicConfig(ctx, n); err != nil || cfg == nil {
			p["cfg|"+n+"|-1"] = "-"
		} else {
			p["cfg|"+n+"|-1"] = fmt.Sprintf("rms=%d rb=%d sb=%d cfg=%v", cfg.GetRetentionMs(), cfg.GetRetentionBytes(), cfg.GetSegmentBytes(), cfg.GetConfig())
		}
		for q := 0; q <= vhNP; q++ {
			key := fmt.Sprintf("%s|%d", n, q)
			// next offset of n/q; "0" when the partition does not exist (so creating a topic changes "topic", not "off")
			if off, err := e.store.Store.NextOffset(ctx, n, int32(q)); err != nil {
				p["off|"+key] = "0"
			} else {
				p["off|"+key] = strconv.FormatInt(off, 10)
				offs[n] = append(offs[n], off)
			}
			objs, err := e.s3.ListSegments(ctx, fmt.Sprintf("%s/%s/%d/", vhNS, n, q))
			if err != nil {
				e.t.Fatalf("list segments: %v", err)
			}
			keys := make([]string, 0, len(objs))
			for _, o := range objs {
				keys = append(keys, fmt.Sprintf("%s:%d", o.Key, o.Size))
			}
			sort.Strings(keys)
			known += len(keys)
			p["s3|"+key] = strings.Join(keys, ",")
		}
	}
	// anything in the bucket outside the prefixes above
	all, _ := e.s3.ListSegments(ctx, "")
	p["s3|*|-1"] = strconv.Itoa(len(all) - known)
	gnames := map[string]bool{"gk": true, "gu": true}
	groups, err := e.store.Store.ListConsumerGroups(ctx)
	if err != nil {
		e.t.Fatalf("project groups: %v", err)
	}
	gstr := map[string]string{}
	for _, g := range groups {
		gnames[g.GetGroupId()] = true
		mem := make([]string, 0, len(g.GetMembers()))
		for id, m := range g.GetMembers() {
			mem = append(mem, fmt.Sprintf("%s:%v:%d", id, m.GetSubscriptions(), len(m.GetAssignments())))
		}
		sort.Strings(mem)
		gstr[g.GetGroupId()] = fmt.Sprintf("state=%s gen=%d leader=%s proto=%s/%s members=%v", g.GetState(), g.GetGenerationId(), g.GetLeader(), g.GetProtocolType(), g.GetProtocol(), mem)
	}
	commits := map[string][]string{}
	offsets, err := e.store.Store.ListConsumerOffsets(ctx)
	if err != nil {
		e.t.Fatalf("project commits: %v", err)
	}
	for _, o := range offsets {
		gnames[o.Group] = true
		commits[o.Group] = append(commits[o.Group], fmt.Sprintf("%s/%d=%d", o.Topic, o.Partition, o.Offset))
	}
	for g := range gnames {
		if s, ok := gstr[g]; ok {
			p["group|"+g+"|-1"] = s
		} else {
			p["group|"+g+"|-1"] = "-"
		}
		c := commits[g]
		sort.Strings(c)
		p["commit|"+g+"|-1"] = strings.Join(c, ",")
	}
	st["topics"] = topics
	st["offs"] = offs
	return p, st
}

func vhChanged(before, after map[string]string) []map[string]any {
	keys := map[string]bool{}
	for k := range before {
		keys[k] = true
	}
	for k := range after {
		keys[k] = true
	}
	var ks []string
	for k := range keys {
		if before[k] != after[k] {
			ks = append(ks, k)
		}
	}
	sort.Strings(ks)
	out := []map[string]any{}
	for _, k := range ks {
		f := strings.Split(k, "|")
		pn, _ := strconv.Atoi(f[2])
		out = append(out, map[string]any{"k": f[0], "n": f[1], "p": pn})
	}
	return out
}

func vhDecode[T kmsg.Response](t *testing.T, version int16, payload []byte, resp T) T {
	body, ok := protocol.SkipResponseHeader(resp.Key(), version, payload)
	if !ok {
		t.Fatalf("skip response header for api key %d failed", resp.Key())
	}
	resp.SetVersion(version)
	if err := resp.ReadFrom(body); err != nil {
		t.Fatalf("decode response api key %d v%d: %v", resp.Key(), version, err)
	}
	return resp
}

type vhReply struct {
	code int16
	data bool
}

func vhKey(name string, part int32) string { return fmt.Sprintf("%s|%d", name, part) }

func vhGroupTopics(tgs []vhTarget) ([]string, map[string][]int32) {
	var order []string
	parts := map[string][]int32{}
	for _, tg := range tgs {
		if _, ok := parts[tg.name]; !ok {
			order = append(order, tg.name)
		}
		parts[tg.name] = append(parts[tg.name], tg.part)
	}
	return order, parts
}

// do sends one request through handler.Handle and returns the reply per target (keyed name|part) and whether a reply came.
func (e *vhEnv) do(ctx context.Context, api string, tgs []vhTarget) (map[string]vhReply, bool) {
	t := e.t
	e.corr++
	cid := e.principal
	hdr := func(key int16, v int16) *protocol.RequestHeader {
		return &protocol.RequestHeader{APIKey: key, APIVersion: v, CorrelationID: e.corr, ClientID: &cid}
	}
	out := map[string]vhReply{}
	call := func(h *protocol.RequestHeader, req kmsg.Request) []byte {
		req.SetVersion(h.APIVersion)
		payload, err := e.h.Handle(ctx, h, req)
		if err != nil {
			t.Fatalf("Handle(%s %v): %v", api, tgs, err)
		}
		return payload
	}
	order, parts := vhGroupTopics(tgs)
	g := ""
	if len(tgs) > 0 {
		g = tgs[0].name
	}
	member, gen := "bogus-member", int32(99)
	if g == "gk" {
		member, gen = e.member, e.gen
	}
	switch api {
	case "ApiVersions":
		const v = 2
		resp := vhDecode(t, v, call(hdr(protocol.APIKeyApiVersion, v), kmsg.NewPtrApiVersionsRequest()), kmsg.NewPtrApiVersionsResponse())
		out[vhKey("", -1)] = vhReply{code: resp.ErrorCode}
	case "Metadata":
		const v = 4
		req := kmsg.NewPtrMetadataRequest()
		for _, n := range order {
			rt := kmsg.NewMetadataRequestTopic()
			rt.Topic = kmsg.StringPtr(n)
			req.Topics = append(req.Topics, rt)
		}
		resp := vhDecode(t, v, call(hdr(protocol.APIKeyMetadata, v), req), kmsg.NewPtrMetadataResponse())
		for _, tp := range resp.Topics {
			if tp.Topic != nil {
				out[vhKey(*tp.Topic, 0)] = vhReply{code: tp.ErrorCode}
			}
		}
	case "Produce":
		const v = 7
		req := kmsg.NewPtrProduceRequest()
		req.Acks = -1
		req.TimeoutMillis = 1000
		for _, n := range order {
			rt := kmsg.NewProduceRequestTopic()
			rt.Topic = n
			for _, p := range parts[n] {
				rp := kmsg.NewProduceRequestTopicPartition()
				rp.Partition = p
				rp.Records = vhBatch()
				rt.Partitions = append(rt.Partitions, rp)
			}
			req.Topics = append(req.Topics, rt)
		}
		payload := call(hdr(protocol.APIKeyProduce, v), req)
		if payload == nil {
			return out, false
		}
		resp := vhDecode(t, v, payload, kmsg.NewPtrProduceResponse())
		for _, tp := range resp.Topics {
			for _, pp := range tp.Partitions {
				out[vhKey(tp.Topic, pp.Partition)] = vhReply{code: pp.ErrorCode}
			}
		}
	case "Fetch":
		const v = 11
		req := kmsg.NewPtrFetchRequest()
		req.ReplicaID = -1
		req.MaxWaitMillis = 0
		req.MaxBytes = 1 << 20
		for _, n := range order {
			rt := kmsg.NewFetchRequestTopic()
			rt.Topic = n
			for _, p := range parts[n] {
				rp := kmsg.NewFetchRequestTopicPartition()
				rp.Partition = p
				rp.FetchOffset = 0
				rp.PartitionMaxBytes = 1 << 20
				rt.Partitions = append(rt.Partitions, rp)
			}
			req.Topics = append(req.Topics, rt)
		}
		resp := vhDecode(t, v, call(hdr(protocol.APIKeyFetch, v), req), kmsg.NewPtrFetchResponse())
		for _, tp := range resp.Topics {
			for _, pp := range tp.Partitions {
				out[vhKey(tp.Topic, pp.Partition)] = vhReply{code: pp.ErrorCode, data: len(pp.RecordBatches) > 0}
			}
		}
	case "FetchById":
		const v = 13
		meta, err := e.store.Store.Metadata(ctx, nil)
		if err != nil {
			t.Fatalf("metadata for topic ids: %v", err)
		}
		ids := map[string][16]byte{}
		names := map[[16]byte]string{}
		for _, tp := range meta.Topics {
			if tp.Topic != nil {
				ids[*tp.Topic] = tp.TopicID
				names[tp.TopicID] = *tp.Topic
			}
		}
		req := kmsg.NewPtrFetchRequest()
		req.ReplicaID = -1
		req.MaxWaitMillis = 0
		req.MaxBytes = 1 << 20
		for _, n := range order {
			id, ok := ids[n]
			if !ok {
				t.Fatalf("FetchById: topic %s has no id", n)
			}
			rt := kmsg.NewFetchRequestTopic()
			rt.TopicID = id // the name field stays empty, as a v13 client sends it
			for _, p := range parts[n] {
				rp := kmsg.NewFetchRequestTopicPartition()
				rp.Partition = p
				rp.FetchOffset = 0
				rp.PartitionMaxBytes = 1 << 20
				rt.Partitions = append(rt.Partitions, rp)
			}
			req.Topics = append(req.Topics, rt)
		}
		resp := vhDecode(t, v, call(hdr(protocol.APIKeyFetch, v), req), kmsg.NewPtrFetchResponse())
		for _, tp := range resp.Topics {
			for _, pp := range tp.Partitions {
				out[vhKey(names[tp.TopicID], pp.Partition)] = vhReply{code: pp.ErrorCode, data: len(pp.RecordBatches) > 0}
			}
		}
	case "ListOffsets", "ListOffsetsLatest", "ListOffsetsEarliest":
		const v = 4
		ts := int64(-1)
		if api == "ListOffsetsEarliest" {
			ts = -2
		}
		req := kmsg.NewPtrListOffsetsRequest()
		req.ReplicaID = -1
		for _, n := range order {
			rt := kmsg.NewListOffsetsRequestTopic()
			rt.Topic = n
			for _, p := range parts[n] {
				rp := kmsg.NewListOffsetsRequestTopicPartition()
				rp.Partition = p
				rp.Timestamp = ts
				rp.MaxNumOffsets = 1
				rt.Partitions = append(rt.Partitions, rp)
			}
			req.Topics = append(req.Topics, rt)
		}
		resp := vhDecode(t, v, call(hdr(protocol.APIKeyListOffsets, v), req), kmsg.NewPtrListOffsetsResponse())
		for _, tp := range resp.Topics {
			for _, pp := range tp.Partitions {
				out[vhKey(tp.Topic, pp.Partition)] = vhReply{code: pp.ErrorCode}
			}
		}
	case "OffsetForLeaderEpoch":
		const v = 3
		req := kmsg.NewPtrOffsetForLeaderEpochRequest()
		req.ReplicaID = -1
		for _, n := range order {
			rt := kmsg.NewOffsetForLeaderEpochRequestTopic()
			rt.Topic = n
			for _, p := range parts[n] {
				rp := kmsg.NewOffsetForLeaderEpochRequestTopicPartition()
				rp.Partition = p
				rt.Partitions = append(rt.Partitions, rp)
			}
			req.Topics = append(req.Topics, rt)
		}
		resp := vhDecode(t, v, call(hdr(protocol.APIKeyOffsetForLeaderEpoch, v), req), kmsg.NewPtrOffsetForLeaderEpochResponse())
		for _, tp := range resp.Topics {
			for _, pp := range tp.Partitions {
				out[vhKey(tp.Topic, pp.Partition)] = vhReply{code: pp.ErrorCode}
			}
		}
	case "DescribeConfigs", "DescribeBrokerConfigs":
		const v = 4
		req := kmsg.NewPtrDescribeConfigsRequest()
		rr := kmsg.NewDescribeConfigsRequestResource()
		if api == "DescribeConfigs" {
			rr.ResourceType = kmsg.ConfigResourceTypeTopic
			rr.ResourceName = g
		} else {
			rr.ResourceType = kmsg.ConfigResourceTypeBroker
			rr.ResourceName = "1"
		}
		req.Resources = append(req.Resources, rr)
		resp := vhDecode(t, v, call(hdr(protocol.APIKeyDescribeConfigs, v), req), kmsg.NewPtrDescribeConfigsResponse())
		for _, r := range resp.Resources {
			out[vhKey(g, tgs[0].part)] = vhReply{code: r.ErrorCode}
		}
	case "AlterConfigs":
		const v = 1
		req := kmsg.NewPtrAlterConfigsRequest()
		rr := kmsg.NewAlterConfigsRequestResource()
		rr.ResourceType = kmsg.ConfigResourceTypeTopic
		rr.ResourceName = g
		c := kmsg.NewAlterConfigsRequestResourceConfig()
		c.Name = "retention.ms"
		c.Value = kmsg.StringPtr(strconv.Itoa(100000 + e.nreq))
		rr.Configs = append(rr.Configs, c)
		req.Resources = append(req.Resources, rr)
		resp := vhDecode(t, v, call(hdr(protocol.APIKeyAlterConfigs, v), req), kmsg.NewPtrAlterConfigsResponse())
		for _, r := range resp.Resources {
			out[vhKey(r.ResourceName, tgs[0].part)] = vhReply{code: r.ErrorCode}
		}
	case "CreatePartitions":
		const v = 1
		req := kmsg.NewPtrCreatePartitionsRequest()
		req.TimeoutMillis = 1000
		rt := kmsg.NewCreatePartitionsRequestTopic()
		rt.Topic = g
		rt.Count = vhNP + 1
		req.Topics = append(req.Topics, rt)
		resp := vhDecode(t, v, call(hdr(protocol.APIKeyCreatePartitions, v), req), kmsg.NewPtrCreatePartitionsResponse())
		for _, r := range resp.Topics {
			out[vhKey(r.Topic, tgs[0].part)] = vhReply{code: r.ErrorCode}
		}
	case "CreateTopics":
		const v = 2
		req := kmsg.NewPtrCreateTopicsRequest()
		req.TimeoutMillis = 1000
		rt := kmsg.NewCreateTopicsRequestTopic()
		rt.Topic = g
		rt.NumPartitions = vhNP
		rt.ReplicationFactor = 1
		req.Topics = append(req.Topics, rt)
		resp := vhDecode(t, v, call(hdr(protocol.APIKeyCreateTopics, v), req), kmsg.NewPtrCreateTopicsResponse())
		for _, r := range resp.Topics {
			out[vhKey(r.Topic, tgs[0].part)] = vhReply{code: r.ErrorCode}
		}
	case "DeleteTopics":
		const v = 2
		req := kmsg.NewPtrDeleteTopicsRequest()
		req.TimeoutMillis = 1000
		req.TopicNames = []string{g}
		resp := vhDecode(t, v, call(hdr(protocol.APIKeyDeleteTopics, v), req), kmsg.NewPtrDeleteTopicsResponse())
		for _, r := range resp.Topics {
			if r.Topic != nil {
				out[vhKey(*r.Topic, tgs[0].part)] = vhReply{code: r.ErrorCode}
			}
		}
	case "FindCoordinator":
		const v = 3
		req := kmsg.NewPtrFindCoordinatorRequest()
		req.CoordinatorKey = g
		resp := vhDecode(t, v, call(hdr(protocol.APIKeyFindCoordinator, v), req), kmsg.NewPtrFindCoordinatorResponse())
		out[vhKey(g, -1)] = vhReply{code: resp.ErrorCode}
	case "JoinGroup":
		const v = 4
		req := kmsg.NewPtrJoinGroupRequest()
		req.Group = g
		req.SessionTimeoutMillis = 30000
		req.RebalanceTimeoutMillis = 30000
		req.ProtocolType = "consumer"
		pr := kmsg.NewJoinGroupRequestProtocol()
		pr.Name = "range"
		pr.Metadata = vhJoinMetadata([]string{"tk"})
		req.Protocols = append(req.Protocols, pr)
		resp := vhDecode(t, v, call(hdr(protocol.APIKeyJoinGroup, v), req), kmsg.NewPtrJoinGroupResponse())
		out[vhKey(g, -1)] = vhReply{code: resp.ErrorCode}
	case "SyncGroup":
		const v = 4
		req := kmsg.NewPtrSyncGroupRequest()
		req.Group, req.MemberID, req.Generation = g, member, gen
		resp := vhDecode(t, v, call(hdr(protocol.APIKeySyncGroup, v), req), kmsg.NewPtrSyncGroupResponse())
		out[vhKey(g, -1)] = vhReply{code: resp.ErrorCode}
	case "Heartbeat":
		const v = 4
		req := kmsg.NewPtrHeartbeatRequest()
		req.Group, req.MemberID, req.Generation = g, member, gen
		resp := vhDecode(t, v, call(hdr(protocol.APIKeyHeartbeat, v), req), kmsg.NewPtrHeartbeatResponse())
		out[vhKey(g, -1)] = vhReply{code: resp.ErrorCode}
	case "LeaveGroup":
		const v = 4
		req := kmsg.NewPtrLeaveGroupRequest()
		req.Group = g
		req.MemberID = member
		m := kmsg.NewLeaveGroupRequestMember()
		m.MemberID = member
		req.Members = append(req.Members, m)
		resp := vhDecode(t, v, call(hdr(protocol.APIKeyLeaveGroup, v), req), kmsg.NewPtrLeaveGroupResponse())
		out[vhKey(g, -1)] = vhReply{code: resp.ErrorCode}
	case "OffsetCommit":
		const v = 3
		req := kmsg.NewPtrOffsetCommitRequest()
		req.Group, req.MemberID, req.Generation = g, member, gen
		req.RetentionTimeMillis = -1
		rt := kmsg.NewOffsetCommitRequestTopic()
		rt.Topic = "tk"
		rp := kmsg.NewOffsetCommitRequestTopicPartition()
		rp.Partition = 0
		rp.Offset = int64(1000 + e.nreq)
		rp.Metadata = kmsg.StringPtr("")
		rt.Partitions = append(rt.Partitions, rp)
		req.Topics = append(req.Topics, rt)
		resp := vhDecode(t, v, call(hdr(protocol.APIKeyOffsetCommit, v), req), kmsg.NewPtrOffsetCommitResponse())
		out[vhKey(g, -1)] = vhReply{code: resp.Topics[0].Partitions[0].ErrorCode}
	case "OffsetFetch":
		const v = 5
		req := kmsg.NewPtrOffsetFetchRequest()
		req.Group = g
		rt := kmsg.NewOffsetFetchRequestTopic()
		rt.Topic = "tk"
		rt.Partitions = []int32{0}
		req.Topics = append(req.Topics, rt)
		resp := vhDecode(t, v, call(hdr(protocol.APIKeyOffsetFetch, v), req), kmsg.NewPtrOffsetFetchResponse())
		code := resp.ErrorCode
		if code == 0 && len(resp.Topics) > 0 && len(resp.Topics[0].Partitions) > 0 {
			code = resp.Topics[0].Partitions[0].ErrorCode
		}
		// an unauthorized reply must not carry the committed offset either; reported as "data" (not record data, see NOTES)
		out[vhKey(g, -1)] = vhReply{code: code}
	case "DescribeGroups":
		const v = 5
		req := kmsg.NewPtrDescribeGroupsRequest()
		req.Groups = order
		resp := vhDecode(t, v, call(hdr(protocol.APIKeyDescribeGroups, v), req), kmsg.NewPtrDescribeGroupsResponse())
		for _, r := range resp.Groups {
			out[vhKey(r.Group, -1)] = vhReply{code: r.ErrorCode}
		}
	case "DeleteGroups":
		const v = 2
		req := kmsg.NewPtrDeleteGroupsRequest()
		req.Groups = order
		resp := vhDecode(t, v, call(hdr(protocol.APIKeyDeleteGroups, v), req), kmsg.NewPtrDeleteGroupsResponse())
		for _, r := range resp.Groups {
			out[vhKey(r.Group, -1)] = vhReply{code: r.ErrorCode}
		}
	case "ListGroups":
		const v = 4
		resp := vhDecode(t, v, call(hdr(protocol.APIKeyListGroups, v), kmsg.NewPtrListGroupsRequest()), kmsg.NewPtrListGroupsResponse())
		out[vhKey("*", -1)] = vhReply{code: resp.ErrorCode}
	default:
		t.Fatalf("unknown api %q", api)
	}
	return out, true
}

func vhJoinMetadata(topics []string) []byte {
	var buf bytes.Buffer
	w16 := func(v int16) { _ = binary.Write(&buf, binary.BigEndian, v) }
	w32 := func(v int32) { _ = binary.Write(&buf, binary.BigEndian, v) }
	w16(0)
	w32(int32(len(topics)))
	for _, tp := range topics {
		w16(int16(len(tp)))
		buf.WriteString(tp)
	}
	w32(0)
	return buf.Bytes()
}

func (e *vhEnv) etcdOwner(ctx context.Context, tg vhTarget) string {
	c, cancel := context.WithTimeout(ctx, 3*time.Second)
	defer cancel()
	resp, err := e.admin.Get(c, fmt.Sprintf("%s/%s/%d", metadata.PartitionLeasePrefix(), tg.name, tg.part))
	if err != nil {
		e.t.Fatalf("read lease key: %v", err)
	}
	if len(resp.Kvs) == 0 {
		return ""
	}
	if e.a0Lease != 0 && resp.Kvs[0].Lease == e.a0Lease && string(resp.Kvs[0].Value) == "A" {
		return "A0" // written by the broker's previous incarnation (same broker id, its own etcd lease)
	}
	return string(resp.Kvs[0].Value)
}

// doMid runs one produce whose lease acquisition is parked at the scheduler gate lease.afterTxn (transaction committed,
// reply not processed), performs the environment step `mid`, and lets the produce continue.
func (e *vhEnv) doMid(ctx context.Context, step vhStep, tgs []vhTarget) (map[string]vhReply, bool) {
	t := e.t
	tg := tgs[0]
	g := &vhGate{point: "lease.afterTxn", id: fmt.Sprintf("A|%s/%d", tg.name, tg.part), parked: make(chan struct{}), release: make(chan struct{}), returned: make(chan struct{})}
	e.gate = g
	vhCurGate.Store(g)
	type res struct {
		r  map[string]vhReply
		ok bool
	}
	done := make(chan res, 1)
	go func() {
		r, ok := e.do(ctx, step.Api, tgs)
		done <- res{r, ok}
	}()
	select {
	case <-g.parked:
	case <-time.After(30 * time.Second):
		t.Fatalf("ReqMid: gate lease.afterTxn not reached (hook missing, or the partition was already owned)")
	}
	switch step.Mid {
	case "ReleaseForeign":
		e.leaseA.ReleaseAll()
	case "ExpireOldForeign":
		c, cancel := context.WithTimeout(ctx, 5*time.Second)
		_, err := e.admin.Revoke(c, clientv3.LeaseID(e.a0Lease))
		cancel()
		if err != nil {
			t.Fatalf("ReqMid: revoke the previous incarnation's lease: %v", err)
		}
	default:
		t.Fatalf("ReqMid: unknown mid step %q", step.Mid)
	}
	if err := e.leaseB.Acquire(ctx, tg.name, tg.part); err != nil {
		t.Fatalf("ReqMid: the other broker could not acquire %v: %v", tg, err)
	}
	g.relOnce.Do(func() { close(g.release) })
	var out res
	select {
	case out = <-done:
	case <-time.After(60 * time.Second):
		t.Fatalf("ReqMid: the parked produce did not finish")
	}
	e.gate = nil
	vhCurGate.Store(nil)
	return out.r, out.ok
}

func (e *vhEnv) setup(ctx context.Context, endpoints []string) {
	t := e.t
	brokerInfo := protocol.MetadataBroker{NodeID: 1, Host: "localhost", Port: 19092}
	cluster := "verif-cluster"
	snapshot := metadata.ClusterMetadata{ControllerID: 1, ClusterID: &cluster, Brokers: []protocol.MetadataBroker{brokerInfo}}
	var inner metadata.Store
	if e.etcd {
		c, cancel := context.WithTimeout(ctx, 5*time.Second)
		if _, err := e.admin.Delete(c, "/kafscale", clientv3.WithPrefix()); err != nil {
			t.Fatalf("clean etcd: %v", err)
		}
		cancel()
		es, err := metadata.NewEtcdStore(ctx, snapshot, metadata.EtcdStoreConfig{Endpoints: endpoints})
		if err != nil {
			t.Fatalf("etcd store: %v", err)
		}
		e.estore = es
		inner = es
	} else {
		inner = metadata.NewInMemoryStore(snapshot)
	}
	if _, err := inner.CreateTopic(ctx, metadata.TopicSpec{Name: "tk", NumPartitions: vhNP, ReplicationFactor: 1}); err != nil {
		t.Fatalf("create tk: %v", err)
	}
	e.store = &vhStore{Store: inner, up: true}
	e.s3 = storage.NewMemoryS3Client()
	e.s3w = &vhS3{MemoryS3Client: e.s3, e: e, fail: map[string]bool{}, healthAt: map[string]string{}}
	h := newHandler(e.store, e.s3w, brokerInfo, testLoggerVH())
	h.autoCreateTopics = e.sched.Auto
	h.autoCreatePartitions = vhNP
	h.allowAdminAPIs = true
	h.flushOnAck = true
	h.traceKafka = false
	h.s3Namespace = vhNS
	h.groupLeaseManager = nil
	h.leaseManager = nil
	e.h = h
	if e.sched.S3Cfg != nil {
		c := e.sched.S3Cfg
		unit := 100 * time.Millisecond
		e.hcfg = broker.S3HealthConfig{Window: 100000 * time.Second, LatencyWarn: time.Duration(c.Lw) * unit, LatencyCrit: time.Duration(c.Lc) * unit,
			ErrorWarn: float64(c.Ewn) / float64(c.Ed), ErrorCrit: float64(c.Ecn) / float64(c.Ed), MaxSamples: c.MaxN}
	} else {
		e.hcfg = broker.S3HealthConfig{Window: 100000 * time.Second, LatencyWarn: time.Hour, LatencyCrit: 2 * time.Hour, ErrorWarn: 0.2, ErrorCrit: 0.6, MaxSamples: 4}
	}
	e.installMonitor()
	if e.etcd {
		newCli := func() *clientv3.Client {
			c, err := clientv3.New(clientv3.Config{Endpoints: endpoints, DialTimeout: 5 * time.Second})
			if err != nil {
				t.Fatalf("etcd client: %v", err)
			}
			return c
		}
		e.cliA, e.cliB = newCli(), newCli()
		// long TTL: no lease expires by itself during a schedule; schedules with a SessionExpire step use a short one
		// because the client notices a revoked lease only at its next keepalive (TTL/3)
		ttl := 60
		for _, st := range e.sched.Steps {
			if st.A == "SessionExpire" {
				ttl = 6
			}
		}
		e.leaseA = metadata.NewPartitionLeaseManager(e.cliA, metadata.PartitionLeaseConfig{BrokerID: "A", LeaseTTLSeconds: ttl, Logger: testLoggerVH()})
		e.leaseB = metadata.NewPartitionLeaseManager(e.cliB, metadata.PartitionLeaseConfig{BrokerID: "B", LeaseTTLSeconds: 60, Logger: testLoggerVH()})
		h.leaseManager = e.leaseA
		e.leaseUp = true
	} else {
		// known group gk: one stable member, generation known, offset 5 committed for tk/0
		join := kmsg.NewPtrJoinGroupRequest()
		join.Group = "gk"
		join.SessionTimeoutMillis = 3600000
		join.RebalanceTimeoutMillis = 3600000
		join.ProtocolType = "consumer"
		pr := kmsg.NewJoinGroupRequestProtocol()
		pr.Name = "range"
		pr.Metadata = vhJoinMetadata([]string{"tk"})
		join.Protocols = append(join.Protocols, pr)
		jr, err := h.coordinator.JoinGroup(ctx, join)
		if err != nil || jr.ErrorCode != 0 {
			t.Fatalf("setup join: %v %+v", err, jr)
		}
		sync := kmsg.NewPtrSyncGroupRequest()
		sync.Group, sync.MemberID, sync.Generation = "gk", jr.MemberID, jr.Generation
		sr, err := h.coordinator.SyncGroup(ctx, sync)
		if err != nil || sr.ErrorCode != 0 {
			t.Fatalf("setup sync: %v %+v", err, sr)
		}
		oc := kmsg.NewPtrOffsetCommitRequest()
		oc.Group, oc.MemberID, oc.Generation = "gk", jr.MemberID, jr.Generation
		rt := kmsg.NewOffsetCommitRequestTopic()
		rt.Topic = "tk"
		rp := kmsg.NewOffsetCommitRequestTopicPartition()
		rp.Partition, rp.Offset, rp.Metadata = 0, 5, kmsg.StringPtr("")
		rt.Partitions = append(rt.Partitions, rp)
		oc.Topics = append(oc.Topics, rt)
		cr, err := h.coordinator.OffsetCommit(ctx, oc)
		if err != nil || cr.Topics[0].Partitions[0].ErrorCode != 0 {
			t.Fatalf("setup commit: %v %+v", err, cr)
		}
		e.member, e.gen = jr.MemberID, jr.Generation
	}
	if e.sched.S3Cfg != nil {
		// gate schedules: tk/0 holds one acknowledged record, so a fetch that passes the gate returns data
		h.authorizer = acl.NewAuthorizer(acl.Config{Enabled: true, DefaultPolicy: "allow"})
		if r, _ := e.do(ctx, "Produce", []vhTarget{{"tk", 0}}); r[vhKey("tk", 0)].code != 0 {
			t.Fatalf("setup produce failed: %+v", r)
		}
	}
}

func (e *vhEnv) teardown() {
	if e.gate != nil {
		g := e.gate
		g.relOnce.Do(func() { close(g.release) })
		e.gate = nil
	}
	vhCurGate.Store(nil)
	if e.h != nil && e.h.coordinator != nil {
		e.h.coordinator.Stop()
	}
	if e.leaseA != nil {
		e.leaseA.ReleaseAll()
	}
	if e.leaseB != nil {
		e.leaseB.ReleaseAll()
	}
	if e.leaseA0 != nil {
		e.leaseA0.ReleaseAll()
	}
	if e.cliA0 != nil {
		_ = e.cliA0.Close()
	}
	if e.cliA != nil {
		_ = e.cliA.Close()
	}
	if e.cliB != nil {
		_ = e.cliB.Close()
	}
	if e.estore != nil {
		_ = e.estore.Close()
	}
}

func testLoggerVH() *slog.Logger {
	return slog.New(slog.NewTextHandler(io.Discard, &slog.HandlerOptions{}))
}

func TestVerifHandlerReplay(t *testing.T) {
	in, outPath := os.Getenv("VERIF_SCHEDULES"), os.Getenv("VERIF_TRACE_OUT")
	if in == "" || outPath == "" {
		t.Skip("no schedules")
	}
	// the handler under test is configured explicitly below; make sure the process environment does not interfere
	for _, k := range []string{"KAFSCALE_ACL_ENABLED", "KAFSCALE_ACL_JSON", "KAFSCALE_ACL_FILE", "KAFSCALE_AUTO_CREATE_TOPICS", "KAFSCALE_ALLOW_ADMIN_APIS", "KAFSCALE_PRODUCE_SYNC_FLUSH", "KAFSCALE_S3_NAMESPACE"} {
		os.Unsetenv(k)
	}
	f, err := os.Open(in)
	if err != nil {
		t.Fatal(err)
	}
	defer f.Close()
	out, err := os.Create(outPath)
	if err != nil {
		t.Fatal(err)
	}
	defer out.Close()
	w := bufio.NewWriter(out)
	defer w.Flush()
	emit := func(m map[string]any) {
		b, err := json.Marshal(m)
		if err != nil {
			t.Fatal(err)
		}
		w.Write(b)
		w.WriteByte('\n')
	}
	var scheds []vhSched
	sc := bufio.NewScanner(f)
	sc.Buffer(make([]byte, 1<<20), 1<<26)
	needEtcd := false
	for sc.Scan() {
		var s vhSched
		if err := json.Unmarshal(sc.Bytes(), &s); err != nil {
			t.Fatal(err)
		}
		if s.Mode == "etcd" {
			needEtcd = true
		}
		scheds = append(scheds, s)
	}
	var endpoints []string
	var admin *clientv3.Client
	if needEtcd {
		endpoints = testutil.StartEmbeddedEtcd(t)
		admin, err = clientv3.New(clientv3.Config{Endpoints: endpoints, DialTimeout: 5 * time.Second})
		if err != nil {
			t.Fatal(err)
		}
		defer admin.Close()
	}
	metadata.VerifGate = vhGateFn
	defer func() { metadata.VerifGate = nil }()
	ctx := context.Background()
	n := 0
	for i, s := range scheds {
		e := &vhEnv{t: t, sched: s, etcd: s.Mode == "etcd", admin: admin, principal: vhPrincipal}
		e.setup(ctx, endpoints)
		_, st0 := e.project(ctx)
		emit(map[string]any{"ev": "Reset", "sched": i, "mode": s.Mode, "auto": s.Auto, "leasing": e.etcd, "st": st0})
		for _, step := range s.Steps {
			switch step.A {
			case "SetHealth":
				switch step.Arg {
				case "healthy":
					e.fed = nil
				case "degraded":
					e.fed = []vhSample{{0, true}, {0, false}, {0, false}, {0, false}}
				case "unavailable":
					e.fed = []vhSample{{0, true}, {0, true}, {0, true}, {0, true}}
				default:
					t.Fatalf("bad health %q", step.Arg)
				}
				e.installMonitor()
				emit(map[string]any{"ev": "SetHealth", "arg": step.Arg, "health": string(e.h.s3Health.State())})
			case "S3Sample":
				e.fed = append(e.fed, vhSample{time.Duration(step.Lat) * 100 * time.Millisecond, step.Err})
				e.installMonitor()
				emit(map[string]any{"ev": "S3Sample", "lat": step.Lat, "err": step.Err, "health": string(e.h.s3Health.State()), "stored": -1})
			case "S3Query":
				e.installMonitor()
				emit(map[string]any{"ev": "S3Query", "health": string(e.h.s3Health.Snapshot().State), "stored": -1})
			case "SetStore":
				e.store.up = step.Arg == "up"
				emit(map[string]any{"ev": "SetStore", "arg": step.Arg})
			case "ForeignAcquire":
				idx, _ := strconv.Atoi(step.Arg)
				tg := vhTarget{vhTopicSeq[(idx-1)/vhNP], int32((idx - 1) % vhNP)}
				if err := e.leaseB.Acquire(ctx, tg.name, tg.part); err != nil {
					t.Fatalf("foreign acquire %v: %v", tg, err)
				}
				emit(map[string]any{"ev": "ForeignAcquire", "arg": step.Arg, "owner": e.etcdOwner(ctx, tg)})
			case "CloseLease":
				e.leaseA.ReleaseAll()
				emit(map[string]any{"ev": "CloseLease", "arg": ""})
			case "LeaseDown":
				_ = e.cliA.Close()
				deadline := time.Now().Add(10 * time.Second)
				for {
					held := false
					for _, tn := range vhTopicSeq {
						for q := 0; q < vhNP; q++ {
							if e.leaseA.Owns(tn, int32(q)) {
								held = true
							}
						}
					}
					if !held {
						break
					}
					if time.Now().After(deadline) {
						t.Fatalf("lease manager did not notice the lost session")
					}
					time.Sleep(5 * time.Millisecond)
				}
				e.leaseUp = false
				emit(map[string]any{"ev": "LeaseDown", "arg": ""})
			case "OldIncarnation":
				idx, _ := strconv.Atoi(step.Arg)
				tg := vhTarget{vhTopicSeq[(idx-1)/vhNP], int32((idx - 1) % vhNP)}
				cli, err := clientv3.New(clientv3.Config{Endpoints: endpoints, DialTimeout: 5 * time.Second})
				if err != nil {
					t.Fatalf("etcd client: %v", err)
				}
				e.cliA0 = cli
				e.leaseA0 = metadata.NewPartitionLeaseManager(cli, metadata.PartitionLeaseConfig{BrokerID: "A", LeaseTTLSeconds: 60, Logger: testLoggerVH()})
				if err := e.leaseA0.Acquire(ctx, tg.name, tg.part); err != nil {
					t.Fatalf("previous incarnation acquire %v: %v", tg, err)
				}
				c, cancel := context.WithTimeout(ctx, 3*time.Second)
				resp, err := e.admin.Get(c, fmt.Sprintf("%s/%s/%d", metadata.PartitionLeasePrefix(), tg.name, tg.part))
				cancel()
				if err != nil || len(resp.Kvs) != 1 {
					t.Fatalf("previous incarnation key: %v %+v", err, resp)
				}
				e.a0Lease = resp.Kvs[0].Lease
				emit(map[string]any{"ev": "OldIncarnation", "arg": step.Arg, "owner": e.etcdOwner(ctx, tg)})
			case "SessionExpire":
				// the broker's lease is revoked in etcd; its monitor goroutine is parked at the gate lease.monitor
				var leaseID clientv3.LeaseID
				for _, tn := range vhTopicSeq {
					for q := 0; q < vhNP && leaseID == 0; q++ {
						if e.leaseA.Owns(tn, int32(q)) {
							c, cancel := context.WithTimeout(ctx, 3*time.Second)
							resp, err := e.admin.Get(c, fmt.Sprintf("%s/%s/%d", metadata.PartitionLeasePrefix(), tn, q))
							cancel()
							if err != nil || len(resp.Kvs) != 1 || string(resp.Kvs[0].Value) != "A" {
								t.Fatalf("SessionExpire: lease key of %s/%d: %v %+v", tn, q, err, resp)
							}
							leaseID = clientv3.LeaseID(resp.Kvs[0].Lease)
						}
					}
				}
				if leaseID == 0 {
					t.Fatalf("SessionExpire: broker owns nothing")
				}
				g := &vhGate{point: "lease.monitor", id: fmt.Sprintf("A|%x", int64(leaseID)), parked: make(chan struct{}), release: make(chan struct{}), returned: make(chan struct{})}
				e.gate = g
				vhCurGate.Store(g)
				c, cancel := context.WithTimeout(ctx, 5*time.Second)
				_, err := e.admin.Revoke(c, leaseID)
				cancel()
				if err != nil {
					t.Fatalf("SessionExpire: revoke: %v", err)
				}
				select {
				case <-g.parked:
				case <-time.After(30 * time.Second):
					t.Fatalf("SessionExpire: the session did not end / gate lease.monitor not reached (hook missing?)")
				}
				e.sessDead = true
				emit(map[string]any{"ev": "SessionExpire", "arg": ""})
			case "MonitorRun":
				g := e.gate
				if g == nil {
					t.Fatalf("MonitorRun without a parked monitor")
				}
				g.relOnce.Do(func() { close(g.release) })
				select {
				case <-g.returned:
				case <-time.After(10 * time.Second):
					t.Fatalf("MonitorRun: gate did not return")
				}
				if e.sessDead {
					// the dead session was not replaced: the monitor clears the ownership map; wait for exactly that
					deadline := time.Now().Add(10 * time.Second)
					for {
						held := false
						for _, tn := range vhTopicSeq {
							for q := 0; q < vhNP; q++ {
								if e.leaseA.Owns(tn, int32(q)) {
									held = true
								}
							}
						}
						if !held {
							break
						}
						if time.Now().After(deadline) {
							t.Fatalf("MonitorRun: ownership not cleared")
						}
						time.Sleep(2 * time.Millisecond)
					}
					e.sessDead = false
				}
				e.gate = nil
				vhCurGate.Store(nil)
				emit(map[string]any{"ev": "MonitorRun", "arg": ""})
			case "Req", "ReqMid":
				e.nreq++
				tgs := vhTargets(step.Tg)
				policy := "deny"
				if step.Perms.Dflt {
					policy = "allow"
				}
				// one principal name per distinct ACL entry: the same name always carries the same rules (an ACL is fixed per
				// principal in a running broker), different entries never share a name
				pj, _ := json.Marshal(step.Perms)
				hsh := fnv.New64a()
				hsh.Write(pj)
				e.principal = fmt.Sprintf("%s-%x", vhPrincipal, hsh.Sum64())
				e.h.authorizer = acl.NewAuthorizer(acl.Config{Enabled: true, DefaultPolicy: policy,
					Principals: []acl.PrincipalRules{{Name: e.principal, Allow: vhRules(step.Perms.Allow), Deny: vhRules(step.Perms.Deny)}}})
				e.installMonitor()
				health := string(e.h.s3Health.State())
				owner0 := make([]string, len(tgs))
				leased := e.etcd && step.Api == "Produce"
				if leased {
					for j, tg := range tgs {
						owner0[j] = e.etcdOwner(ctx, tg)
					}
				}
				if leased && e.sessDead {
					for _, tg := range tgs {
						if !e.leaseA.Owns(tg.name, tg.part) {
							e.sessDead = false // an acquisition attempt replaces the dead session
						}
					}
				}
				e.s3w.arm(vhTargets(step.S3Fail), step.S3Err)
				before, _ := e.project(ctx)
				var replies map[string]vhReply
				var replied bool
				if step.A == "ReqMid" {
					replies, replied = e.doMid(ctx, step, tgs)
				} else {
					replies, replied = e.do(ctx, step.Api, tgs)
				}
				healthAfter := string(e.h.s3Health.State())
				after, st := e.project(ctx)
				items := make([]map[string]any, 0, len(tgs))
				for j, tg := range tgs {
					key := vhKey(tg.name, tg.part)
					if step.Api == "Metadata" {
						key = vhKey(tg.name, 0)
					}
					r, ok := replies[key]
					if replied && !ok {
						t.Fatalf("no reply entry for %s in %s %v: %v", key, step.Api, tgs, replies)
					}
					// rating of the monitor while the broker wrote this partition (start of its segment upload), else after the request
					e.s3w.mu.Lock()
					hat, uploaded := e.s3w.healthAt[vhKey(tg.name, tg.part)]
					e.s3w.mu.Unlock()
					if !uploaded {
						hat = healthAfter
					}
					it := map[string]any{"name": tg.name, "part": tg.part, "code": r.code, "data": r.data, "replied": replied,
						"owner0": "", "owns1": false, "owner1": "", "foreign": false, "healthAt": hat, "uploaded": uploaded}
					if leased {
						it["owner0"] = owner0[j]
						it["owns1"] = e.leaseA.Owns(tg.name, tg.part)
						it["owner1"] = e.etcdOwner(ctx, tg)
						it["foreign"] = e.leaseB.Owns(tg.name, tg.part)
					}
					items = append(items, it)
				}
				wire := step.Api
				if strings.HasPrefix(wire, "ListOffsets") {
					wire = "ListOffsets"
				}
				if wire == "FetchById" {
					wire = "Fetch"
				}
				perms := step.Perms
				if perms.Allow == nil {
					perms.Allow = [][]string{}
				}
				if perms.Deny == nil {
					perms.Deny = [][]string{}
				}
				line := map[string]any{"ev": step.A, "mid": step.Mid, "api": wire, "mapi": step.Api, "tg": step.Tg, "perms": perms, "leasing": e.etcd,
					"storeUp": e.store.up, "leaseUp": !e.etcd || e.leaseUp, "health": health, "auto": s.Auto,
					"items": items, "changed": vhChanged(before, after), "st": st}
				if step.Probe != "" {
					line["probe"] = step.Probe
					e.s3w.mu.Lock()
					line["nfail"] = e.s3w.nfail
					line["s3err"] = step.S3Err
					// the refused uploads were recorded by the log as failed S3 operations: they stay in the window the next
					// fresh monitor is fed with
					for k := 0; k < e.s3w.nfail; k++ {
						e.fed = append(e.fed, vhSample{0, true})
					}
					e.s3w.mu.Unlock()
				}
				emit(line)
			default:
				t.Fatalf("unknown step %q", step.A)
			}
		}
		e.teardown()
		n++
	}
	t.Logf("replayed %d schedules", n)
}
