#!/bin/bash
# regenerates every TLC configuration of this module (run inside modules/Handler)
mk() { # file apis maxitems maxreq maxenv leasing autoset rich fixmeta noacl gateafter leaseskip fetchname stale invs view
cat > $1 <<EOF
CONSTANTS
 TopicSeq <- TwoTopics
 Known <- KnownTk
 NP = 2
 Groups <- TwoGroups
 Apis <- $2
 MaxItems = $3
 MaxReq = $4
 MaxEnv = $5
 Leasing = $6
 AutoSet <- $7
 RichPerms = $8
 FixMetaAcl = $9
 DevNoAclOn <- ${10}
 DevGateAfterAppend = "${11}"
 DevLeaseCheckSkipped = ${12}
 DevFetchAclOnRequestName = ${13}
 DevStaleOwnedOnSessionReplace = ${14}
 DevLeaseErrMisindexed = ${MIS:-FALSE}
 MidOn = ${MID:-FALSE}
 DevAclCacheNoAction = ${CACHE:-FALSE}
 DevLateAcquireAfterRelease = ${LATE:-FALSE}
 DevReacquireUnconditional = ${UNC:-FALSE}
INIT Init
NEXT Next
INVARIANTS ${15}
${16}
CHECK_DEADLOCK FALSE
EOF
}
C24="C24_NoEffect C24_AuthError C24_NoLeak"
C19="C19_AckOnlyIfHeld C19_NoWriteUnlessHeld C19_RefusalCode C19_NotLeaderForOtherOwner"
INT="OwnsImpliesKey KnownHavePartitions Exclusive"
mk MC_Handler_quick.cfg AllApis 2 1 1 FALSE BothAuto TRUE TRUE NoApis none FALSE FALSE FALSE "$C24 $C19 $INT" "VIEW View"
mk MC_Handler_thorough.cfg AllApis 2 2 1 FALSE BothAuto FALSE TRUE NoApis none FALSE FALSE FALSE "$C24 $C19 $INT" "VIEW View"
mk MC_HandlerLease_quick.cfg DataApis 2 1 2 TRUE BothAuto FALSE TRUE NoApis none FALSE FALSE FALSE "$C24 $C19 $INT" "VIEW View"
mk MC_HandlerLease_thorough.cfg DataApis 3 2 2 TRUE BothAuto FALSE TRUE NoApis none FALSE FALSE FALSE "$C24 $C19 $INT" "VIEW View"
# lease sessions: three single-partition produces around a session expiry / monitor run / foreign acquisition
mk MC_HandlerLeaseSess.cfg ProduceOnly 1 3 3 TRUE AutoOn FALSE TRUE NoApis none FALSE FALSE FALSE "$C19 $INT" "VIEW View"
# produces with an environment step inside the lease acquisition, previous-incarnation keys
MID=TRUE mk MC_HandlerLeaseMid.cfg ProduceOnly 1 2 2 TRUE AutoOn FALSE TRUE NoApis none FALSE FALSE FALSE "$C19 $INT" "VIEW View"
MID=TRUE LATE=TRUE mk Dev_HandlerLease_LateAcquireAfterRelease.cfg ProduceOnly 1 2 1 TRUE AutoOn FALSE TRUE NoApis none FALSE FALSE FALSE "$C19" "VIEW View"
MID=TRUE UNC=TRUE mk Dev_HandlerLease_ReacquireUnconditional.cfg ProduceOnly 1 2 1 TRUE AutoOn FALSE TRUE NoApis none FALSE FALSE FALSE "$C19" "VIEW View"
mk Enum_Handler.cfg AllApis 2 1 0 FALSE BothAuto TRUE TRUE NoApis none FALSE FALSE FALSE "EmitSched $C24" ""
mk Enum_HandlerLease.cfg ProduceOnly 3 1 2 TRUE AutoOn FALSE TRUE NoApis none FALSE FALSE FALSE "EmitSched $C19" ""
mk Sim_Handler.cfg AllApis 2 4 2 FALSE BothAuto TRUE TRUE NoApis none FALSE FALSE FALSE "EmitSched $C24" ""
MID=TRUE mk Sim_HandlerLease.cfg DataApis 3 4 4 TRUE BothAuto FALSE TRUE NoApis none FALSE FALSE FALSE "EmitSched $C19 $C24" ""
mk Dev_Handler_MetaNoAcl.cfg AllApis 2 1 0 FALSE BothAuto FALSE FALSE NoApis none FALSE FALSE FALSE "$C24" "VIEW View"
mk Dev_Handler_AclAfterAppend.cfg DataApis 2 1 0 FALSE BothAuto FALSE TRUE NoApis acl FALSE FALSE FALSE "$C24" "VIEW View"
CACHE=TRUE mk Dev_Handler_AclCacheNoAction.cfg DataApis 1 2 0 FALSE BothAuto FALSE TRUE NoApis none FALSE FALSE FALSE "$C24" "VIEW View"
mk Dev_Handler_FetchAclOnRequestName.cfg DataApis 1 1 0 FALSE BothAuto FALSE TRUE NoApis none FALSE TRUE FALSE "$C24" "VIEW View"
mk Dev_HandlerLease_GateAfterAppend.cfg ProduceOnly 2 1 2 TRUE AutoOn FALSE TRUE NoApis lease FALSE FALSE FALSE "$C19" "VIEW View"
mk Dev_HandlerLease_LeaseCheckSkipped.cfg ProduceOnly 2 1 2 TRUE AutoOn FALSE TRUE NoApis none TRUE FALSE FALSE "$C19" "VIEW View"
MIS=TRUE mk Dev_HandlerLease_LeaseErrMisindexed.cfg ProduceOnly 2 2 1 TRUE AutoOn FALSE TRUE NoApis none FALSE FALSE FALSE "$C19" "VIEW View"
mk Dev_HandlerLease_StaleOwnedOnSessionReplace.cfg ProduceOnly 1 3 3 TRUE AutoOn FALSE TRUE NoApis none FALSE FALSE TRUE "$C19" "VIEW View"
for a in Produce Fetch ListOffsets OffsetForLeaderEpoch DescribeConfigs DescribeBrokerConfigs AlterConfigs CreatePartitions CreateTopics DeleteTopics JoinGroup SyncGroup Heartbeat LeaveGroup OffsetCommit OffsetFetch DescribeGroups ListGroups DeleteGroups; do
 mk Dev_Handler_NoAclOn$a.cfg AllApis 1 1 0 FALSE BothAuto FALSE TRUE NoAcl$a none FALSE FALSE FALSE "$C24" "VIEW View"
done
