---- MODULE HandlerProps ----
(* C19 and C24 stated once, over one parameter: the record `rq` describing ONE request handled by     *)
(* handler.Handle.  Handler.tla instantiates rq with the model's prediction, Obs_Handler.tla with what *)
(* the harness observed on the real broker handler.                                                    *)
(*                                                                                                    *)
(* rq = [ api      : name of the request type,                                                         *)
(*        perms    : the principal's ACL entry [allow, deny : sets of <<action, name>> (name "*" = every  *)
(*                   name), dflt : BOOLEAN (default policy allow)]; ACLs are on; a request is permitted  *)
(*                   iff no deny rule matches and (an allow rule matches or the default policy allows), *)
(*        leasing  : BOOLEAN (partition leasing active),                                                *)
(*        storeUp  : BOOLEAN (the metadata store reports etcd reachable; an input of the harness),      *)
(*        leaseUp  : BOOLEAN (the lease manager's etcd client is alive; an input of the harness),       *)
(*        items    : sequence of [name, part, code, data, replied, owner0, owns1, owner1], one per      *)
(*                   addressed topic-partition / topic / group / resource, in request order:            *)
(*                   code = error code the client got for it, data = reply carries record bytes for it, *)
(*                   replied = the client got a reply at all; lease fields (leasing only): owner of the *)
(*                   partition's lease key in etcd before the request, whether this broker's manager    *)
(*                   reports ownership after it, owner of the key after it; foreign = another broker's  *)
(*                   manager records ownership of the partition after it,                               *)
(*        changed  : set of [k, n, p]: every piece of broker state whose projection differs after the   *)
(*                   request: k = "topic" (existence, partition count) | "cfg" (topic configuration) |  *)
(*                   "off" (next offset of n/p) | "s3" (objects of n/p) | "group" (group metadata)      *)
(*                   | "commit" (committed offsets of group n);  p = -1 where not applicable ]          *)
EXTENDS Integers, Sequences, FiniteSets
CONSTANTS rq

Self == "A"
SelfOld == "A0"                 \* lease key written by this broker's previous incarnation (same broker id, older etcd lease)
AuthCodes == {29, 30, 31}       \* TOPIC_ / GROUP_ / CLUSTER_AUTHORIZATION_FAILED
NotLeader == 6                  \* NOT_LEADER_OR_FOLLOWER
Retriable19 == {6, 7}           \* NOT_LEADER_OR_FOLLOWER, REQUEST_TIMED_OUT

Has(a, n) == /\ <<a, n>> \notin rq.perms.deny /\ <<a, "*">> \notin rq.perms.deny
             /\ (<<a, n>> \in rq.perms.allow \/ <<a, "*">> \in rq.perms.allow \/ rq.perms.dflt)
IsAdmin == Has("admin", "cluster")

TopicApis == {"Produce", "Fetch", "ListOffsets", "OffsetForLeaderEpoch", "DescribeConfigs"}
\* the permission whose absence makes the addressed item unauthorized (what handler.Handle dispatches on);
\* "" = the request type needs no permission (ApiVersions, Metadata, FindCoordinator)
NeedAction(api) ==
  CASE api = "Produce" -> "produce"
    [] api \in {"Fetch", "ListOffsets", "OffsetForLeaderEpoch", "DescribeConfigs"} -> "fetch"
    [] api \in {"JoinGroup", "SyncGroup", "Heartbeat", "LeaveGroup", "OffsetCommit"} -> "group_write"
    [] api \in {"OffsetFetch", "DescribeGroups", "ListGroups"} -> "group_read"
    [] api = "DeleteGroups" -> "group_admin"
    [] api \in {"AlterConfigs", "CreatePartitions", "CreateTopics", "DeleteTopics", "DescribeBrokerConfigs"} -> "admin"
    [] OTHER -> ""
\* is the principal authorized for item it of this request?
Auth(it) ==
  LET a == NeedAction(rq.api) IN
  IF a = "" THEN TRUE
  ELSE IF a = "admin" THEN IsAdmin
  ELSE Has(a, it.name)
\* permission for the *effect* "create topic n" (Metadata needs no permission to be answered, but creating a topic
\* does): the principal must hold at least one permission under which the broker creates topics at all --
\* admin (CreateTopics) or produce / fetch on that topic (auto-creation on the data path after its ACL check).
MayCreate(n) == IsAdmin \/ Has("produce", n) \/ Has("fetch", n)
AuthEffect(it) == IF rq.api = "Metadata" THEN MayCreate(it.name) ELSE Auth(it)

\* may an authorized item `it` of this request type change the piece of state c ?
Touches(it, c) ==
  CASE rq.api = "Produce" -> c.n = it.name /\ (c.k \in {"topic", "cfg"} \/ (c.k \in {"off", "s3"} /\ c.p = it.part))
    [] rq.api \in {"Fetch", "ListOffsets"} -> c.n = it.name /\ (c.k \in {"topic", "cfg"} \/ (c.k = "off" /\ c.p = it.part))
    [] rq.api \in {"Metadata", "CreateTopics"} -> c.n = it.name /\ c.k \in {"topic", "cfg"}
    [] rq.api = "DeleteTopics" -> (c.n = it.name /\ c.k \in {"topic", "cfg", "off"}) \/ c.k = "commit"
    [] rq.api = "CreatePartitions" -> c.n = it.name /\ c.k = "topic"
    [] rq.api = "AlterConfigs" -> c.n = it.name /\ c.k = "cfg"
    [] rq.api \in {"JoinGroup", "SyncGroup", "Heartbeat", "LeaveGroup"} -> c.n = it.name /\ c.k = "group"
    [] rq.api = "OffsetCommit" -> c.n = it.name /\ c.k = "commit"
    [] rq.api = "DeleteGroups" -> c.n = it.name /\ c.k \in {"group", "commit"}
    [] OTHER -> FALSE
Items == {rq.items[i] : i \in DOMAIN rq.items}

\* ---- C24: with ACLs on, what the principal is not authorized for changes nothing, leaks nothing, is refused ----
C24_NoEffect == \A c \in rq.changed : \E it \in Items : AuthEffect(it) /\ Touches(it, c)
C24_AuthError == \A it \in Items : (~Auth(it) /\ it.replied) => it.code \in AuthCodes
C24_NoLeak == \A it \in Items : ~Auth(it) => ~it.data

\* ---- C19: with leasing active, a produce is acknowledged / written only under a held lease ----
Written(it) == \E c \in rq.changed : c.k \in {"s3", "off"} /\ c.n = it.name /\ c.p = it.part
\* held = this broker's manager records ownership, the etcd key names this broker, and no other broker's manager records
\* ownership of the same partition (a lease is exclusive: a key overwritten under a live foreign owner is not "held")
Held(it) == it.owns1 /\ it.owner1 = Self /\ ~it.foreign
IsLeasedProduce == rq.leasing /\ rq.api = "Produce"
C19_AckOnlyIfHeld == IsLeasedProduce => \A it \in Items : (it.replied /\ it.code = 0) => Held(it)
C19_NoWriteUnlessHeld == IsLeasedProduce => \A it \in Items : ~Held(it) => ~Written(it)
\* not held: NOT_LEADER_OR_FOLLOWER or a retriable error (an authorization error stays an authorization error)
C19_RefusalCode == IsLeasedProduce => \A it \in Items :
                      (~Held(it) /\ it.replied /\ it.code \notin AuthCodes) => it.code \in Retriable19
\* another broker owns the partition: the client is told so (unless the request is refused earlier for authorization
\* or because etcd is unreachable for the metadata store / the lease manager: rq.storeUp / rq.leaseUp = FALSE, REQUEST_TIMED_OUT)
C19_NotLeaderForOtherOwner == IsLeasedProduce => \A it \in Items :
                      (it.owner0 \notin {"", Self, SelfOld} /\ rq.storeUp /\ rq.leaseUp /\ it.replied /\ it.code \notin AuthCodes) => it.code = NotLeader
====
