CONSTANTS
 TopicSeq <- TwoTopics
 Known <- KnownTk
 NP = 2
 Groups <- TwoGroups
 Apis <- ProduceOnly
 MaxItems = 2
 MaxReq = 2
 MaxEnv = 1
 Leasing = TRUE
 AutoSet <- AutoOn
 RichPerms = FALSE
 FixMetaAcl = TRUE
 DevNoAclOn <- NoApis
 DevGateAfterAppend = "none"
 DevLeaseCheckSkipped = FALSE
 DevFetchAclOnRequestName = FALSE
 DevStaleOwnedOnSessionReplace = FALSE
 DevLeaseErrMisindexed = TRUE
 MidOn = FALSE
 DevAclCacheNoAction = FALSE
 DevLateAcquireAfterRelease = FALSE
 DevReacquireUnconditional = FALSE
INIT Init
NEXT Next
INVARIANTS C19_AckOnlyIfHeld C19_NoWriteUnlessHeld C19_RefusalCode C19_NotLeaderForOtherOwner
VIEW View
CHECK_DEADLOCK FALSE
