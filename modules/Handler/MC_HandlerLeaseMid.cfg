CONSTANTS
 TopicSeq <- TwoTopics
 Known <- KnownTk
 NP = 2
 Groups <- TwoGroups
 Apis <- ProduceOnly
 MaxItems = 1
 MaxReq = 2
 MaxEnv = 2
 Leasing = TRUE
 AutoSet <- AutoOn
 RichPerms = FALSE
 FixMetaAcl = TRUE
 DevNoAclOn <- NoApis
 DevGateAfterAppend = "none"
 DevLeaseCheckSkipped = FALSE
 DevFetchAclOnRequestName = FALSE
 DevStaleOwnedOnSessionReplace = FALSE
 DevLeaseErrMisindexed = FALSE
 MidOn = TRUE
 DevAclCacheNoAction = FALSE
 DevLateAcquireAfterRelease = FALSE
 DevReacquireUnconditional = FALSE
INIT Init
NEXT Next
INVARIANTS C19_AckOnlyIfHeld C19_NoWriteUnlessHeld C19_RefusalCode C19_NotLeaderForOtherOwner OwnsImpliesKey KnownHavePartitions Exclusive
VIEW View
CHECK_DEADLOCK FALSE
