---- MODULE Handler ----
(* Request-level model of the broker's handler.Handle (cmd/broker/main.go).                            *)
(*                                                                                                    *)
(* One action per request (Handle is synchronous; the harness issues requests one at a time) and one   *)
(* action per change of the environment the guards read (S3 health rating, metadata-store              *)
(* availability, partition leases taken by another broker, lease manager shut down / cut off).         *)
(* For every request type the model follows the order of the guards in the code:                       *)
(*   Produce : acquire leases for ALL partitions (before anything else) -> per topic ACL -> per         *)
(*             partition: store available -> lease result -> S3 health -> open log (auto-create)        *)
(*             -> append -> flush -> ack                                                                *)
(*   Fetch   : per topic ACL -> per partition: S3 health -> open log (auto-create) -> offset -> read     *)
(*   group APIs : ACL -> (group lease: not configured here) -> store available -> coordinator           *)
(*   admin APIs : ACL (cluster admin) -> store available -> store operation                            *)
(*   Metadata   : auto-create (pinned tree: no ACL check; repaired: FixMetaAcl) -> read                 *)
(* and records the *effect class* of the request: which pieces of broker state it may change.           *)
(* The coordinator's own replies are not modelled (Group.tla does that): a request that passes the      *)
(* handler's guards gets code Backend (= decided behind the handler, never an authorization code).      *)
EXTENDS Integers, Sequences, FiniteSets, TLC, Json
CONSTANTS TopicSeq,        \* sequence of topic names, e.g. <<"tk","tu">>
          Known,           \* topics that exist initially (2 partitions each)
          NP,              \* partitions per topic addressed by requests (0..NP-1); auto-created topics get NP partitions
          Groups,          \* group names, e.g. {"gk","gu"} (gk exists with one stable member in the harness)
          Apis,            \* request types to generate
          MaxItems,        \* partitions per Produce/Fetch request
          MaxReq, MaxEnv,
          Leasing,         \* TRUE: partition leasing active (etcd store + PartitionLeaseManager)
          AutoSet,         \* values of KAFSCALE_AUTO_CREATE_TOPICS to explore
          RichPerms,       \* TRUE: every subset of the relevant permissions, with and without all irrelevant ones
          FixMetaAcl,      \* TRUE: repaired tree (Metadata auto-creates only for principals that may create); FALSE: pinned tree
          DevNoAclOn,      \* deviation: set of request types whose ACL check is missing
          DevGateAfterAppend,   \* deviation: "none" | "lease" | "acl": that Produce guard is evaluated after the append
          DevLeaseCheckSkipped, \* deviation: Produce ignores the lease result
          DevFetchAclOnRequestName, \* deviation: Fetch authorizes the request's name field (empty when the topic is addressed by id)
          DevStaleOwnedOnSessionReplace, \* deviation: replacing a dead lease session keeps the old ownership map
          DevAclCacheNoAction,  \* deviation: topic ACL decisions are memoized per (principal, topic) without the action
          MidOn,                \* TRUE: generate previous-incarnation keys and produces with an environment step between the lease
                                \*       transaction and the processing of its reply (scheduler gate lease.afterTxn)
          DevLateAcquireAfterRelease, \* deviation: an acquire whose transaction committed before ReleaseAll still records ownership
          DevReacquireUnconditional,  \* deviation: reacquire overwrites the key without checking that it still names this broker
          DevLeaseErrMisindexed \* deviation: AcquireAll stores the k-th acquire result at request position k (not at the
                                \*            position of the partition it belongs to) when owned partitions are skipped
VARIABLES auto, topics, nparts, recs, opened, health, storeUp, etcdOwner, aOwns, closed, leaseDown,
          aclCache,    \* (deviation DevAclCacheNoAction only) memoized topic decisions: set of [p, t, d]
          bOwns,       \* partitions the other broker's manager records as owned
          a0Used,      \* a previous-incarnation key has been planted in this schedule
          sessDead,    \* the broker's lease session has expired in etcd and the manager has not processed it yet
          monParked,   \* the manager's session monitor for that session has not run yet
          last, nreq, nenv, done, hist
lvars == <<sessDead, monParked, a0Used, aclCache>>
vars == <<auto, topics, nparts, recs, opened, health, storeUp, etcdOwner, aOwns, bOwns, closed, leaseDown, lvars, last, nreq, nenv, done, hist>>

Topics == {TopicSeq[i] : i \in DOMAIN TopicSeq}
PartIds == 0..(NP - 1)
TP == Topics \X (0..NP)                   \* CreatePartitions may add one partition beyond NP-1
NPart == Len(TopicSeq) * NP
PartSeq == [i \in 1..NPart |-> <<TopicSeq[((i - 1) \div NP) + 1], (i - 1) % NP>>]
Backend == 999                             \* "whatever the coordinator / store answers": never an authorization code
Self == "A"

\* ---------------------------------------------------------------- permissions
AllAtoms == ({"produce", "fetch"} \X (Topics \cup {"*"}))
            \cup ({"group_read", "group_write", "group_admin"} \X (Groups \cup {"*"}))
            \cup {<<"admin", "cluster">>}
\* perms = the principal's ACL entry [allow, deny, dflt] (acl.Authorizer.Allows: deny rules first, then allow rules, then default)
Allowed(perms, a, n) == /\ <<a, n>> \notin perms.deny /\ <<a, "*">> \notin perms.deny
                        /\ (<<a, n>> \in perms.allow \/ <<a, "*">> \in perms.allow \/ perms.dflt)
IsAdmin(perms) == Allowed(perms, "admin", "cluster")
\* the check handler.Handle performs for this request type ("" = none)
ChkAction(api) ==
  CASE api = "Produce" -> "produce"
    [] api \in {"Fetch", "FetchById", "ListOffsets", "ListOffsetsLatest", "ListOffsetsEarliest", "OffsetForLeaderEpoch", "DescribeConfigs"} -> "fetch"
    [] api \in {"JoinGroup", "SyncGroup", "Heartbeat", "LeaveGroup", "OffsetCommit"} -> "group_write"
    [] api \in {"OffsetFetch", "DescribeGroups", "ListGroups"} -> "group_read"
    [] api = "DeleteGroups" -> "group_admin"
    [] api \in {"AlterConfigs", "CreatePartitions", "CreateTopics", "DeleteTopics", "DescribeBrokerConfigs"} -> "admin"
    [] OTHER -> ""
AllOrNothing == {"ListOffsets", "ListOffsetsLatest", "ListOffsetsEarliest", "OffsetForLeaderEpoch"}     \* allowTopics(all topics) before anything else
AuthCode(api) == IF ChkAction(api) \in {"group_read", "group_write", "group_admin"} THEN 30
                 ELSE IF api = "DescribeBrokerConfigs" THEN 31 ELSE 29
Denied(api, perms, name, names) ==
  LET a == ChkAction(api) IN
  IF a = "" \/ api \in DevNoAclOn THEN FALSE
  ELSE IF a = "admin" THEN ~IsAdmin(perms)
  ELSE IF api \in AllOrNothing THEN \E n \in names : ~Allowed(perms, a, n)
  ELSE IF api = "FetchById" /\ DevFetchAclOnRequestName THEN ~Allowed(perms, a, "")
  ELSE IF DevAclCacheNoAction /\ a \in {"produce", "fetch"} /\ \E c \in aclCache : c.p = perms /\ c.t = name
       THEN ~(CHOOSE c \in aclCache : c.p = perms /\ c.t = name).d
  ELSE ~Allowed(perms, a, name)
MayCreate(perms, n) == IsAdmin(perms) \/ Allowed(perms, "produce", n) \/ Allowed(perms, "fetch", n)

\* permissions that can influence the request, and "everything else"
Rel(api, names) ==
  LET a == ChkAction(api) IN
  IF api = "Metadata" THEN {<<"admin", "cluster">>} \cup ({"produce", "fetch"} \X (names \cup {"*"}))
  ELSE IF a = "" THEN {}
  ELSE IF a = "admin" THEN {<<"admin", "cluster">>}
  ELSE {a} \X (names \cup {"*"})
Acl(allow, deny, dflt) == [allow |-> allow, deny |-> deny, dflt |-> dflt]
PermChoices(api, names) ==
  LET rel == Rel(api, names)
      others == AllAtoms \ rel
      specific == {at \in rel : at[2] # "*"}
      subs == IF RichPerms THEN {S \in SUBSET rel : Cardinality(S) <= 2 \/ S = rel} ELSE {{}, rel}
      denies == IF RichPerms THEN {D \in SUBSET specific : D # {} /\ Cardinality(D) <= 2} ELSE {D \in {specific} : D # {}}
  IN \* allow rules only, default deny
     {Acl(S \cup x, {}, FALSE) : S \in subs, x \in {{}, others}}
     \* principals that occur unchanged in requests of every type: everything but one topic action / one topic action denied on one topic
     \cup {Acl(AllAtoms \ ({a} \X (Topics \cup {"*"})), {}, FALSE) : a \in {"produce", "fetch"}}
     \cup (IF RichPerms THEN {Acl(AllAtoms, {<<a, t>>}, FALSE) : a \in {"produce", "fetch"}, t \in Topics} ELSE {})
     \* everything allowed by rules, some names denied explicitly (deny rules win)
     \cup {Acl(AllAtoms, D, FALSE) : D \in denies}
     \* default policy allow, some names denied explicitly
     \cup {Acl({}, D, TRUE) : D \in denies \cup {{}}}

\* ---------------------------------------------------------------- request shapes
NameSets == {S \in SUBSET Topics : S # {}}
RECURSIVE Pick(_, _)
Pick(S, k) == IF k = 0 THEN <<>> ELSE IF k \in S THEN Append(Pick(S, k - 1), PartSeq[k]) ELSE Pick(S, k - 1)
PartChoices == {Pick(S, NPart) : S \in {X \in SUBSET (1..NPart) : X # {} /\ Cardinality(X) <= MaxItems}}
RECURSIVE TopicPick(_, _)
TopicPick(S, k) == IF k = 0 THEN <<>> ELSE IF TopicSeq[k] \in S THEN Append(TopicPick(S, k - 1), <<TopicSeq[k], 0>>) ELSE TopicPick(S, k - 1)
TopicChoices == {TopicPick(S, Len(TopicSeq)) : S \in NameSets}
OneTopic == {<< <<t, 0>> >> : t \in Topics}
OnePart == {<< <<t, p>> >> : t \in Topics, p \in PartIds}
OneGroup == {<< <<g, -1>> >> : g \in Groups}
GroupChoices == OneGroup \cup (IF Cardinality(Groups) >= 2 THEN {<< <<"gk", -1>>, <<"gu", -1>> >>} ELSE {})
\* targets = sequence of <<name, partition>>
Targets(api) ==
  CASE api \in {"Produce", "Fetch", "FetchById"} -> PartChoices
    [] api \in {"ListOffsetsLatest", "ListOffsetsEarliest"} -> OnePart
    [] api \in {"Metadata", "OffsetForLeaderEpoch", "ListOffsets"} -> TopicChoices
    [] api \in {"DescribeConfigs", "AlterConfigs", "CreatePartitions", "CreateTopics", "DeleteTopics"} -> OneTopic
    [] api \in {"DescribeGroups", "DeleteGroups"} -> GroupChoices
    [] api \in {"JoinGroup", "SyncGroup", "Heartbeat", "LeaveGroup", "OffsetCommit", "OffsetFetch", "FindCoordinator"} -> OneGroup
    [] api = "ListGroups" -> {<< <<"*", -1>> >>}
    [] OTHER -> {<< <<"", -1>> >>}          \* ApiVersions, DescribeBrokerConfigs
\* "ListOffsetsLatest"/"ListOffsetsEarliest" are the two timestamp flavours of ListOffsets (-1 reads the store, -2 opens the log)
\* "FetchById" is Fetch v13 addressing topics by topic id (the request's name field is empty)
WireApi(api) == IF api \in {"ListOffsetsLatest", "ListOffsetsEarliest"} THEN "ListOffsets" ELSE IF api = "FetchById" THEN "Fetch" ELSE api
NamesOf(tg) == {tg[i][1] : i \in DOMAIN tg}
\* a partition that does not exist in an existing topic is never addressed (getPartitionLog would spin: see NOTES.md)
ValidTargets(api, tg) ==
  /\ api \in {"Produce", "Fetch", "FetchById", "ListOffsetsLatest", "ListOffsetsEarliest"} =>
       \A i \in DOMAIN tg : (tg[i][1] \in topics => tg[i][2] < nparts[tg[i][1]])
  /\ api = "FetchById" => \A i \in DOMAIN tg : tg[i][1] \in topics      \* only an existing topic has an id

\* ---------------------------------------------------------------- initial state
Init == /\ auto \in AutoSet
        /\ topics = Known /\ nparts = [t \in Topics |-> IF t \in Known THEN NP ELSE 0]
        /\ recs = [x \in TP |-> 0] /\ opened = {}
        /\ health = "healthy" /\ storeUp = TRUE
        /\ etcdOwner = [x \in TP |-> ""] /\ aOwns = {} /\ closed = FALSE /\ leaseDown = FALSE
        /\ sessDead = FALSE /\ monParked = FALSE /\ bOwns = {} /\ a0Used = FALSE /\ aclCache = {}
        /\ last = [api |-> "init", perms |-> Acl({}, {}, FALSE), leasing |-> Leasing, storeUp |-> TRUE, leaseUp |-> TRUE, items |-> <<>>, changed |-> {}]
        /\ nreq = 0 /\ nenv = 0 /\ done = FALSE /\ hist = <<>>

\* ---------------------------------------------------------------- building blocks
Item(name, part, code, data, o0, o1s, o1) ==
  [name |-> name, part |-> part, code |-> code, data |-> data, replied |-> TRUE, owner0 |-> o0, owns1 |-> o1s, owner1 |-> o1, foreign |-> FALSE]
Plain(name, part, code) == Item(name, part, code, FALSE, "", FALSE, "")
Ch(k, n, p) == [k |-> k, n |-> n, p |-> p]
BackpressureCode == IF health = "degraded" THEN 7 ELSE -1
\* a store/log state threaded through the partitions of one request
St0 == [topics |-> topics, nparts |-> nparts, recs |-> recs, opened |-> opened]
\* getPartitionLog: cached log, existing topic, or auto-create (ensureTopic) -- returns [ok, st, ch]
Open(st, t, p) ==
  IF <<t, p>> \in st.opened THEN [ok |-> TRUE, st |-> st, ch |-> {}]
  ELSE IF t \in st.topics THEN [ok |-> TRUE, st |-> [st EXCEPT !.opened = @ \cup {<<t, p>>}], ch |-> {Ch("off", t, p)}]
  ELSE IF auto THEN [ok |-> TRUE,
                     st |-> [st EXCEPT !.topics = @ \cup {t}, !.nparts[t] = NP, !.opened = @ \cup {<<t, p>>}],
                     ch |-> {Ch("topic", t, -1), Ch("cfg", t, -1), Ch("off", t, p)}]
  ELSE [ok |-> FALSE, st |-> st, ch |-> {}]
\* lease result of AcquireAll for one partition
LeaseOutcome(x) ==
  IF ~Leasing THEN "na"
  ELSE IF closed THEN "shut"
  ELSE IF x \in aOwns THEN "owned"
  ELSE IF leaseDown THEN "err"
  ELSE IF etcdOwner[x] \notin {"", Self, "A0"} THEN "other"
  ELSE "acq"

\* ---------------------------------------------------------------- Produce
\* returns [st, item, ch] for partition x = <<t, p>> given the threaded state
ProduceOne(st, perms, t, p, names, ownsAfter, ownerAfter, foreignAfter, lo) ==
  LET x == <<t, p>>
      o0 == IF Leasing THEN etcdOwner[x] ELSE ""
      o1s == Leasing /\ x \in ownsAfter
      o1 == IF Leasing THEN ownerAfter[x] ELSE ""
      mk(code) == [Item(t, p, code, FALSE, o0, o1s, o1) EXCEPT !.foreign = Leasing /\ x \in foreignAfter]
      denied == Denied("Produce", perms, t, names)
      leaseBad == lo \in {"other", "shut", "err"} /\ ~DevLeaseCheckSkipped
      leaseCode == IF lo = "err" THEN 7 ELSE 6
      op == Open(st, t, p)
      app == [op.st EXCEPT !.recs[x] = @ + 1]
      appCh == op.ch \cup {Ch("s3", t, p), Ch("off", t, p)}
      \* guards in code order; a guard named by DevGateAfterAppend is skipped here and applied after the append
      early == IF denied /\ DevGateAfterAppend # "acl" THEN 29
               ELSE IF ~storeUp THEN 7
               ELSE IF leaseBad /\ DevGateAfterAppend # "lease" THEN leaseCode
               ELSE IF health # "healthy" THEN BackpressureCode
               ELSE IF ~op.ok THEN -1
               ELSE 0
      late == IF denied THEN 29 ELSE IF leaseBad THEN leaseCode ELSE 0
  IN IF early # 0 THEN [st |-> st, item |-> mk(early), ch |-> {}]
     ELSE [st |-> app, item |-> mk(late), ch |-> appCh]
\* the lease result handleProduce sees for request position i
NeedSeq(tg) == SelectSeq(tg, LAMBDA y : <<y[1], y[2]>> \notin aOwns)
LeaseSeen(tg, i) ==
  IF ~DevLeaseErrMisindexed THEN LeaseOutcome(<<tg[i][1], tg[i][2]>>)
  ELSE IF i <= Len(NeedSeq(tg))
       THEN LET o == LeaseOutcome(<<NeedSeq(tg)[i][1], NeedSeq(tg)[i][2]>>) IN IF o \in {"other", "shut", "err"} THEN o ELSE "acq"
       ELSE "owned"
RECURSIVE ProduceAll(_, _, _, _, _, _, _)
ProduceAll(st, perms, tg, i, names, ownsAfter, ownerAfter) ==
  IF i > Len(tg) THEN [st |-> st, items |-> <<>>, ch |-> {}]
  ELSE LET r == ProduceOne(st, perms, tg[i][1], tg[i][2], names, ownsAfter, ownerAfter, bOwns, LeaseSeen(tg, i))
           rest == ProduceAll(r.st, perms, tg, i + 1, names, ownsAfter, ownerAfter)
       IN [st |-> rest.st, items |-> <<r.item>> \o rest.items, ch |-> r.ch \cup rest.ch]

\* ---------------------------------------------------------------- Fetch / ListOffsets(-2)
FetchOne(api, st, perms, t, p, names) ==
  LET x == <<t, p>>
      op == Open(st, t, p)
  IN IF Denied(api, perms, t, names) THEN [st |-> st, item |-> Plain(t, p, 29), ch |-> {}]
     ELSE IF health # "healthy" THEN [st |-> st, item |-> Plain(t, p, BackpressureCode), ch |-> {}]
     ELSE IF ~op.ok THEN [st |-> st, item |-> Plain(t, p, IF storeUp THEN -1 ELSE 7), ch |-> {}]
     ELSE IF t \notin op.st.topics THEN [st |-> op.st, item |-> Plain(t, p, 3), ch |-> op.ch]   \* cached log of a deleted topic
     ELSE [st |-> op.st, item |-> Item(t, p, 0, op.st.recs[x] > 0, "", FALSE, ""), ch |-> op.ch]
RECURSIVE FetchAll(_, _, _, _, _, _)
FetchAll(api, st, perms, tg, i, names) ==
  IF i > Len(tg) THEN [st |-> st, items |-> <<>>, ch |-> {}]
  ELSE LET r == FetchOne(api, st, perms, tg[i][1], tg[i][2], names)
           rest == FetchAll(api, r.st, perms, tg, i + 1, names)
       IN [st |-> rest.st, items |-> <<r.item>> \o rest.items, ch |-> r.ch \cup rest.ch]

\* ---------------------------------------------------------------- one-target request types
Simple(api, perms, tg) ==
  LET t == tg[1][1]
      p == tg[1][2]
      names == NamesOf(tg)
      known == t \in topics
      none == [st |-> St0, ch |-> {}]
      den == Denied(api, perms, t, names)
      ac == AuthCode(api)
  IN CASE api = "ListOffsetsLatest" ->
            none @@ [items |-> << Plain(t, p, IF den THEN ac ELSE IF known THEN 0 ELSE -1) >>]
       [] api = "ListOffsetsEarliest" ->
            IF den THEN none @@ [items |-> << Plain(t, p, ac) >>]
            ELSE LET op == Open(St0, t, p) IN
                 [st |-> op.st, ch |-> op.ch, items |-> << Plain(t, p, IF op.ok THEN 0 ELSE -1) >>]
       [] api \in {"DescribeConfigs"} ->
            none @@ [items |-> << Plain(t, p, IF den THEN ac ELSE IF known THEN 0 ELSE 3) >>]
       [] api = "DescribeBrokerConfigs" -> none @@ [items |-> << Plain("", -1, IF den THEN ac ELSE 0) >>]
       [] api = "AlterConfigs" ->
            IF den THEN none @@ [items |-> << Plain(t, p, ac) >>]
            ELSE IF ~storeUp THEN none @@ [items |-> << Plain(t, p, 7) >>]
            ELSE IF ~known THEN none @@ [items |-> << Plain(t, p, 3) >>]
            ELSE [st |-> St0, ch |-> {Ch("cfg", t, -1)}, items |-> << Plain(t, p, 0) >>]
       [] api = "CreatePartitions" ->
            IF den THEN none @@ [items |-> << Plain(t, p, ac) >>]
            ELSE IF ~storeUp THEN none @@ [items |-> << Plain(t, p, 7) >>]
            ELSE IF ~known THEN none @@ [items |-> << Plain(t, p, 3) >>]
            ELSE IF nparts[t] > NP THEN none @@ [items |-> << Plain(t, p, 37) >>]   \* asks for NP+1 again: INVALID_PARTITIONS
            ELSE [st |-> [St0 EXCEPT !.nparts[t] = NP + 1], ch |-> {Ch("topic", t, -1)}, items |-> << Plain(t, p, 0) >>]
       [] api = "CreateTopics" ->
            IF den THEN none @@ [items |-> << Plain(t, p, ac) >>]
            ELSE IF ~storeUp THEN none @@ [items |-> << Plain(t, p, 7) >>]
            ELSE IF known THEN none @@ [items |-> << Plain(t, p, 36) >>]
            ELSE [st |-> [St0 EXCEPT !.topics = @ \cup {t}, !.nparts[t] = NP],
                  ch |-> {Ch("topic", t, -1), Ch("cfg", t, -1)}, items |-> << Plain(t, p, 0) >>]
       [] api = "DeleteTopics" ->
            IF den THEN none @@ [items |-> << Plain(t, p, ac) >>]
            ELSE IF ~storeUp THEN none @@ [items |-> << Plain(t, p, 7) >>]
            ELSE IF ~known THEN none @@ [items |-> << Plain(t, p, 3) >>]
            ELSE [st |-> [St0 EXCEPT !.topics = @ \ {t}, !.nparts[t] = 0],
                  ch |-> {Ch("topic", t, -1), Ch("cfg", t, -1)} \cup {Ch("off", t, q) : q \in 0..NP} \cup {Ch("commit", g, -1) : g \in Groups},
                  items |-> << Plain(t, p, 0) >>]
       [] OTHER -> none @@ [items |-> << Plain(t, p, 0) >>]      \* ApiVersions, FindCoordinator

\* ---------------------------------------------------------------- multi-target request types
RECURSIVE MetaAll(_, _, _, _)
MetaAll(st, perms, tg, i) ==
  IF i > Len(tg) THEN [st |-> st, items |-> <<>>, ch |-> {}]
  ELSE LET t == tg[i][1]
           create == auto /\ t \notin st.topics /\ (FixMetaAcl => MayCreate(perms, t))
           st1 == IF create THEN [st EXCEPT !.topics = @ \cup {t}, !.nparts[t] = NP] ELSE st
           rest == MetaAll(st1, perms, tg, i + 1)
       IN [st |-> rest.st,
           items |-> << Plain(t, tg[i][2], IF t \in st1.topics THEN 0 ELSE 3) >> \o rest.items,
           ch |-> (IF create THEN {Ch("topic", t, -1), Ch("cfg", t, -1)} ELSE {}) \cup rest.ch]
PerTarget(api, perms, tg) ==      \* OffsetForLeaderEpoch, ListOffsets over several topics, group requests
  LET names == NamesOf(tg)
      grp == ChkAction(api) \in {"group_read", "group_write", "group_admin"}
      codeOf(n) == IF Denied(api, perms, n, names) THEN AuthCode(api)
                   ELSE IF grp THEN (IF storeUp THEN Backend ELSE 7)
                   ELSE IF n \in topics THEN 0 ELSE IF api = "ListOffsets" THEN -1 ELSE 3
      touch(n) == IF ~grp \/ codeOf(n) # Backend THEN {}
                  ELSE IF api = "OffsetCommit" THEN {Ch("commit", n, -1)}
                  ELSE IF api = "DeleteGroups" THEN {Ch("group", n, -1), Ch("commit", n, -1)}
                  ELSE IF api \in {"JoinGroup", "SyncGroup", "Heartbeat", "LeaveGroup"} THEN {Ch("group", n, -1)}
                  ELSE {}
  IN [st |-> St0, items |-> [i \in DOMAIN tg |-> Plain(tg[i][1], tg[i][2], codeOf(tg[i][1]))],
      ch |-> UNION {touch(tg[i][1]) : i \in DOMAIN tg}]

\* ---------------------------------------------------------------- the request action
Outcome(api, perms, tg, ownsAfter, ownerAfter) ==
  CASE api = "Produce" -> ProduceAll(St0, perms, tg, 1, NamesOf(tg), ownsAfter, ownerAfter)
    [] api \in {"Fetch", "FetchById"} -> FetchAll(api, St0, perms, tg, 1, NamesOf(tg))
    [] api = "Metadata" -> MetaAll(St0, perms, tg, 1)
    [] api \in {"OffsetForLeaderEpoch", "ListOffsets", "DescribeGroups", "DeleteGroups", "JoinGroup", "SyncGroup", "Heartbeat",
                "LeaveGroup", "OffsetCommit", "OffsetFetch", "ListGroups"} -> PerTarget(api, perms, tg)
    [] OTHER -> Simple(api, perms, tg)

Req(api, tg, perms) ==
  /\ nreq < MaxReq /\ ~done
  /\ ValidTargets(api, tg)
  \* between the expiry of the session and the manager noticing it, only partitions not (stale-)owned are produced to:
  \* the stale fast path in that window is the lease protocol's expiry-detection latency, not a handler decision
  /\ (api = "Produce" /\ Leasing /\ sessDead) => \A i \in DOMAIN tg : <<tg[i][1], tg[i][2]>> \notin aOwns
  /\ LET xs == {<<tg[i][1], tg[i][2]>> : i \in DOMAIN tg}
         leased == api = "Produce" /\ Leasing
         acq == IF leased THEN {x \in xs : LeaseOutcome(x) = "acq"} ELSE {}
         \* every acquisition attempt goes through getOrCreateSession, which replaces a dead session and (repaired
         \* design) forgets what was owned under it
         replaced == leased /\ sessDead /\ \E x \in xs : LeaseOutcome(x) \in {"acq", "other"}
         ownsAfter == (IF replaced /\ ~DevStaleOwnedOnSessionReplace THEN {} ELSE aOwns) \cup acq
         ownerAfter == [x \in TP |-> IF x \in acq THEN Self ELSE etcdOwner[x]]
         r == Outcome(api, perms, tg, ownsAfter, ownerAfter)
     IN /\ aOwns' = ownsAfter /\ etcdOwner' = ownerAfter
        /\ sessDead' = (sessDead /\ ~replaced) /\ monParked' = monParked
        /\ aclCache' = IF DevAclCacheNoAction /\ api \in {"Produce", "Fetch", "FetchById"}
                        THEN aclCache \cup {[p |-> perms, t |-> n, d |-> Allowed(perms, ChkAction(api), n)] :
                                              n \in {m \in NamesOf(tg) : ~\E c \in aclCache : c.p = perms /\ c.t = m}}
                        ELSE aclCache
        /\ topics' = r.st.topics /\ nparts' = r.st.nparts /\ recs' = r.st.recs /\ opened' = r.st.opened
        /\ last' = [api |-> WireApi(api), perms |-> perms, leasing |-> Leasing, storeUp |-> storeUp, leaseUp |-> ~leaseDown, items |-> r.items, changed |-> r.ch]
        /\ done' = (api = "DeleteTopics" /\ r.items[1].code = 0)     \* a schedule ends after a successful topic deletion
  /\ nreq' = nreq + 1
  /\ hist' = Append(hist, [a |-> "Req", api |-> api, tg |-> tg, perms |-> perms])
  /\ UNCHANGED <<auto, health, storeUp, closed, leaseDown, nenv, bOwns, a0Used>>

\* ---------------------------------------------------------------- environment
Env(name, arg) == /\ nenv < MaxEnv /\ ~done /\ nenv' = nenv + 1
                  /\ hist' = Append(hist, [a |-> name, arg |-> arg])
                  /\ last' = [last EXCEPT !.api = "env", !.items = <<>>, !.changed = {}]
SetHealth(h) == /\ h # health /\ Env("SetHealth", h) /\ health' = h
                /\ UNCHANGED <<auto, topics, nparts, recs, opened, storeUp, etcdOwner, aOwns, bOwns, closed, leaseDown, lvars, nreq, done>>
SetStore(b) == /\ b # storeUp /\ Env("SetStore", IF b THEN "up" ELSE "down") /\ storeUp' = b
               /\ UNCHANGED <<auto, topics, nparts, recs, opened, health, etcdOwner, aOwns, bOwns, closed, leaseDown, lvars, nreq, done>>
\* another broker's lease manager acquires a free partition
ForeignAcquire(i) == /\ Leasing /\ etcdOwner[PartSeq[i]] = "" /\ Env("ForeignAcquire", ToString(i))
                     /\ etcdOwner' = [etcdOwner EXCEPT ![PartSeq[i]] = "B"] /\ bOwns' = bOwns \cup {PartSeq[i]}
                     /\ UNCHANGED <<auto, topics, nparts, recs, opened, health, storeUp, aOwns, closed, leaseDown, lvars, nreq, done>>
\* the broker's previous incarnation (same broker id, its own etcd lease, still alive) left a lease key behind
OldIncarnation(i) == /\ Leasing /\ MidOn /\ ~a0Used /\ etcdOwner[PartSeq[i]] = "" /\ Env("OldIncarnation", ToString(i))
                     /\ etcdOwner' = [etcdOwner EXCEPT ![PartSeq[i]] = "A0"] /\ a0Used' = TRUE
                     /\ UNCHANGED <<auto, topics, nparts, recs, opened, health, storeUp, aOwns, bOwns, closed, leaseDown, sessDead, monParked, aclCache, nreq, done>>
\* graceful shutdown: ReleaseAll (session closed, keys revoked)
CloseLease == /\ Leasing /\ ~closed /\ ~leaseDown /\ ~sessDead /\ ~monParked /\ Env("CloseLease", "")
              /\ closed' = TRUE /\ aOwns' = {}
              /\ etcdOwner' = [x \in TP |-> IF etcdOwner[x] = Self THEN "" ELSE etcdOwner[x]]
              /\ UNCHANGED <<auto, topics, nparts, recs, opened, health, storeUp, bOwns, leaseDown, lvars, nreq, done>>
\* the lease manager loses etcd (client cut off): session dies, local ownership is cleared, keys stay until the TTL
LeaseDown == /\ Leasing /\ ~closed /\ ~leaseDown /\ ~sessDead /\ ~monParked /\ Env("LeaseDown", "")
             /\ leaseDown' = TRUE /\ aOwns' = {}
             /\ UNCHANGED <<auto, topics, nparts, recs, opened, health, storeUp, etcdOwner, bOwns, closed, lvars, nreq, done>>
\* the broker's lease session expires in etcd (lease revoked: all its keys vanish); the manager's monitor goroutine for
\* that session has not run yet (scheduler gate lease.monitor), so the manager still lists the partitions as owned
SessionExpire == /\ Leasing /\ ~closed /\ ~leaseDown /\ ~sessDead /\ ~monParked /\ aOwns # {} /\ Env("SessionExpire", "")
                 /\ sessDead' = TRUE /\ monParked' = TRUE
                 /\ etcdOwner' = [x \in TP |-> IF etcdOwner[x] = Self THEN "" ELSE etcdOwner[x]]
                 /\ UNCHANGED <<auto, topics, nparts, recs, opened, health, storeUp, aOwns, bOwns, closed, leaseDown, a0Used, aclCache, nreq, done>>
\* monitorSession runs: it clears the ownership map only if the dead session is still the manager's current session
MonitorRun == /\ Leasing /\ monParked /\ Env("MonitorRun", "")
              /\ monParked' = FALSE /\ sessDead' = FALSE
              /\ aOwns' = IF sessDead THEN {} ELSE aOwns
              /\ UNCHANGED <<auto, topics, nparts, recs, opened, health, storeUp, etcdOwner, bOwns, closed, leaseDown, a0Used, aclCache, nreq, done>>

\* ---------------------------------------------------------------- a produce with an environment step inside its lease acquisition
\* One Produce for a single partition x the manager does not own.  doAcquire commits its lease transaction, then (gate
\* lease.afterTxn) the environment moves before the reply is processed:
\*   "ReleaseForeign"   (x was free, the transaction wrote the key): ReleaseAll runs (shutdown: session closed, keys revoked) and the
\*                      other broker acquires x.  The late reply finds m.session # its session: "session changed" -> 7, no append.
\*   "ExpireOldForeign" (x carried the previous incarnation's key, the transaction read owner = self): the old lease expires and the
\*                      other broker acquires x.  reacquire's guarded write fails -> ErrNotOwner -> 6, no append.
ReqMid(i, perms, mid) ==
  LET x == PartSeq[i]
      tg == << <<x[1], x[2]>> >>
      rel == mid = "ReleaseForeign"
      lateOwn == (rel /\ DevLateAcquireAfterRelease) \/ (~rel /\ DevReacquireUnconditional)
      ownsAfter == (IF rel THEN {} ELSE aOwns) \cup (IF lateOwn THEN {x} ELSE {})
      ownerAfter == [y \in TP |-> IF y = x THEN (IF ~rel /\ DevReacquireUnconditional THEN Self ELSE "B")
                                  ELSE IF rel /\ etcdOwner[y] = Self THEN "" ELSE etcdOwner[y]]
      foreignAfter == bOwns \cup {x}
      lo == IF lateOwn THEN "acq" ELSE IF rel THEN "err" ELSE "other"
      r == ProduceOne(St0, perms, x[1], x[2], {x[1]}, ownsAfter, ownerAfter, foreignAfter, lo)
  IN /\ Leasing /\ MidOn /\ nreq < MaxReq /\ ~done /\ ~closed /\ ~leaseDown /\ ~sessDead /\ ~monParked
     /\ x \notin aOwns /\ ValidTargets("Produce", tg)
     /\ etcdOwner[x] = (IF rel THEN "" ELSE "A0")
     /\ aOwns' = ownsAfter /\ etcdOwner' = ownerAfter /\ bOwns' = foreignAfter /\ closed' = (closed \/ rel)
     /\ topics' = r.st.topics /\ nparts' = r.st.nparts /\ recs' = r.st.recs /\ opened' = r.st.opened
     /\ last' = [api |-> "Produce", perms |-> perms, leasing |-> Leasing, storeUp |-> storeUp, leaseUp |-> TRUE, items |-> << r.item >>, changed |-> r.ch]
     /\ nreq' = nreq + 1 /\ done' = done
     /\ hist' = Append(hist, [a |-> "ReqMid", api |-> "Produce", tg |-> tg, perms |-> perms, mid |-> mid])
     /\ UNCHANGED <<auto, health, storeUp, leaseDown, lvars, nenv>>

Next == \/ \E api \in Apis : \E tg \in Targets(api) : \E perms \in PermChoices(api, NamesOf(tg)) : Req(api, tg, perms)
        \/ \E h \in {"healthy", "degraded", "unavailable"} : SetHealth(h)
        \/ \E b \in BOOLEAN : SetStore(b)
        \/ \E i \in 1..NPart : ForeignAcquire(i)
        \/ CloseLease \/ LeaseDown \/ SessionExpire \/ MonitorRun
        \/ \E i \in 1..NPart : OldIncarnation(i)
        \/ \E i \in 1..NPart : \E perms \in PermChoices("Produce", {PartSeq[i][1]}) : \E mid \in {"ReleaseForeign", "ExpireOldForeign"} : ReqMid(i, perms, mid)
Spec == Init /\ [][Next]_vars

\* ---------------------------------------------------------------- properties (HandlerProps, instantiated with the prediction)
P == INSTANCE HandlerProps WITH rq <- last
C24_NoEffect == P!C24_NoEffect
C24_AuthError == P!C24_AuthError
C24_NoLeak == P!C24_NoLeak
C19_AckOnlyIfHeld == P!C19_AckOnlyIfHeld
C19_NoWriteUnlessHeld == P!C19_NoWriteUnlessHeld
C19_RefusalCode == P!C19_RefusalCode
C19_NotLeaderForOtherOwner == P!C19_NotLeaderForOtherOwner
\* internal facts
OwnsImpliesKey == (~sessDead /\ ~DevStaleOwnedOnSessionReplace) => \A x \in aOwns : etcdOwner[x] = Self
Exclusive == (~DevReacquireUnconditional /\ ~DevLateAcquireAfterRelease /\ ~DevStaleOwnedOnSessionReplace /\ ~sessDead) => aOwns \cap bOwns = {}
KnownHavePartitions == \A t \in Topics : (t \in topics) = (nparts[t] > 0)

View == <<auto, topics, nparts, recs, opened, health, storeUp, etcdOwner, aOwns, bOwns, closed, leaseDown, lvars, last, nreq, nenv, done>>
EmitSched == PrintT(<<"SCHED", ToJson([auto |-> auto, leasing |-> Leasing, steps |-> hist])>>)
====
