CONSTANTS
 Brokers = {"b1","b2"}
 Clients = {"m1","m2","m3"}
 MaxReq = 1000000
 MaxMoves = 1000000
 MaxGen = 1000000
 Apis = {"Join","Sync","Heartbeat","Leave","Commit","Fetch"}
 FixInvalidate = {TRUE,FALSE}
 DevNoLeaseCheck = {}
 DevKeepOwnedOnNotice = FALSE
 DevAcquireBlind = FALSE
 DevSyncNoPersist = FALSE
 DevRestoreGenZero = FALSE
INIT TInit
NEXT TNext
POSTCONDITION Reached
CHECK_DEADLOCK FALSE
