---- MODULE Trace_GroupFailover ----
(* Conformance layer: every recorded step of the two real brokers must be a step of GroupFailover.tla (same action, same  *)
(* arguments, same reply) and the logged projection of both coordinators' in-memory group, of both lease managers, of the  *)
(* lease key, of the persisted group and of the committed offset must equal the model's post-state.  The model's           *)
(* nondeterminism (leader choice, round-robin order, and - FixInvalidate = {TRUE, FALSE} - whether a re-acquiring broker   *)
(* forgets its in-memory copy) is resolved by the logged state.                                                            *)
EXTENDS GroupFailover
TraceLog == ndJsonDeserialize("trace.ndjson")
VARIABLE l
tvars == <<vars, l>>
E == TraceLog[l]
Range(s) == {s[i] : i \in DOMAIN s}
Cur(ev) == l <= Len(TraceLog) /\ E.ev = ev /\ l' = l + 1
Ids(x) == {m.id : m \in Range(x.members)}
By(x, i) == CHOOSE m \in Range(x.members) : m.id = i
NormM(x) == IF x.none THEN NoGrp
            ELSE [none |-> FALSE, gen |-> x.gen, leader |-> x.leader, phase |-> x.phase,
                  jg |-> [i \in Ids(x) |-> By(x, i).jg], asg |-> [i \in Ids(x) |-> Range(By(x, i).asg)]]
NormS(x) == IF x.none THEN NoGrp
            ELSE [none |-> FALSE, gen |-> x.gen, leader |-> x.leader, phase |-> x.phase, asg |-> [i \in Ids(x) |-> Range(By(x, i).asg)]]
SubsOk(x) == x.none \/ \A m \in Range(x.members) : m.id \in 1..Len(idOwner') /\ Range(m.sub) = Sub(idOwner'[m.id])
StMatch == /\ \A b \in Brokers : /\ mem'[b] = NormM(E.st.mem[b]) /\ SubsOk(E.st.mem[b])
                                 /\ owned'[b] = E.st.owned[b]
                                 /\ (sess'[b] # 0) = E.st.hasSess[b]
                                 /\ (sess'[b] \in dead') = E.st.sessDead[b]
                                 /\ closed'[b] = E.st.closed[b]
           /\ store' = NormS(E.stPost) /\ SubsOk(E.stPost)
           /\ key'.owner = E.key1
           /\ offs' = E.offsPost
TInit == Init /\ l = 1 /\ TLCSet(7, 0)
TReset == /\ Cur("Reset")
          /\ key' = NoKey /\ sess' = [b \in Brokers |-> 0] /\ owned' = [b \in Brokers |-> FALSE] /\ closed' = [b \in Brokers |-> FALSE]
          /\ dead' = {} /\ nlease' = 0 /\ mem' = [b \in Brokers |-> NoGrp] /\ store' = NoGrp /\ offs' = -1
          /\ idOwner' = <<>> /\ mid' = [c \in Clients |-> 0] /\ known' = [c \in Clients |-> 0]
          /\ nreq' = 0 /\ moves' = 0 /\ tainted' = FALSE /\ lastGen' = 0 /\ last' = [ev |-> "Init"] /\ hist' = <<>>
TReq == /\ Cur("Req") /\ Req(E.b, E.api, E.c)
        /\ last'.id = E.id /\ last'.gen = E.gen /\ last'.code = E.code
        /\ last'.rgen = E.rgen /\ last'.rleader = E.rleader /\ last'.rid = E.rid
        /\ last'.list = Range(E.list) /\ last'.asg = Range(E.asg)
        /\ last'.owns0 = E.owns0 /\ last'.dead0 = E.dead0 /\ last'.key0 = E.key0
        /\ StMatch
TExpire == Cur("Expire") /\ Expire(E.b) /\ StMatch
TNotice == Cur("Notice") /\ Notice(E.b) /\ StMatch
TShutdown == Cur("Shutdown") /\ Shutdown(E.b) /\ StMatch
Consumed == TLCSet(7, IF TLCGet(7) < l THEN l ELSE TLCGet(7))   \* high-water mark of consumed lines
TNext == (TReset \/ TReq \/ TExpire \/ TNotice \/ TShutdown) /\ Consumed
TSpec == TInit /\ [][TNext]_tvars
Reached == PrintT(<<"CONF", ToJson([reached |-> TLCGet(7), total |-> Len(TraceLog)])>>)
====
