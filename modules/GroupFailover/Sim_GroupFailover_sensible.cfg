CONSTANTS
 Brokers = {"b1","b2"}
 Clients = {"m1","m2","m3"}
 MaxReq = 12
 MaxMoves = 5
 MaxGen = 1000
 Apis = {"Join","Sync","Heartbeat","Leave","Commit","Fetch"}
 FixInvalidate = {TRUE}
 DevNoLeaseCheck = {}
 DevKeepOwnedOnNotice = FALSE
 DevAcquireBlind = FALSE
 DevSyncNoPersist = FALSE
 DevRestoreGenZero = FALSE
INIT Init
NEXT NextSensible
INVARIANTS EmitSched
PROPERTIES G11_GenMonotone G11_PersistedGenMonotone G12_StaleCommitRejected G12_StaleNoCommit G13_KeepWorking G13_NoStaleServe G13_JoinReportsPersisted G13_PersistedKept G13_MembersKept G14_ServedOnlyByHolder G14_NotCoordinator
CHECK_DEADLOCK FALSE
