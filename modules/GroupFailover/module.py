"""GroupFailover.tla - growth module: two brokers, two GroupCoordinators, one store, the consumer-group lease (G11-G14)."""
import copy, json, os, re
from concurrent.futures import ThreadPoolExecutor
from lib import tlc as T, layers, gorun
from lib.common import Broken, Violation, verdict, save_replay

GROWTH = True
_TECH = "TLA+ model (GroupFailover.tla) + TLC exhaustive check + replay of TLC behaviours into two real brokers over one embedded etcd + TLC trace validation (observation and conformance layers)"
_NOTE = ("Trusted: TLC; the embedded etcd; an admin client's view of the lease key / lease liveness / persisted group / committed offset; "
         "a wrapped clientv3.Lease that puts keepalives under schedule control (Grant 600 s, keepalive stream closed by the Notice step); "
         "read-only reflection of the coordinators' in-memory group (layer C only). Requests are sequential (one request = one step); "
         "what a broker does inside its expiry-detection window (lease dead in etcd, manager not yet told) and what follows from it is a "
         "diagnostic, never a verdict (NOTES.md). No clock: sessions never lapse, cleanupLoop never acts.")
PROPS = {
    "G11": {"text": "Generation numbers reported to group members (JoinGroup replies) and the generation of the persisted group record never decrease across coordinator failovers, including fail-back to a broker that still holds an old in-memory copy of the group (extends C13 sentence 2 and C15 to two brokers under the group lease). " + _TECH,
            "note": _NOTE, "technique": _TECH},
    "G12": {"text": "An offset commit from a member that is not in the group's current generation as persisted by the current lease holder is rejected by whichever broker answers, and changes no committed offset (extends C13 to two brokers). " + _TECH,
            "note": _NOTE, "technique": _TECH},
    "G13": {"text": "After a failover the new coordinator reports the generation, leader, members, subscriptions and assignments last persisted by the previous one, current members keep working, and after fail-back the old broker does not serve its stale in-memory copy (extends C15). " + _TECH,
            "note": _NOTE, "technique": _TECH},
    "G14": {"text": "A group request is served (any code other than NOT_COORDINATOR / REQUEST_TIMED_OUT) only by the broker whose id is in the group-lease key in etcd, or by a broker inside its expiry-detection window; a broker that sees another owner answers NOT_COORDINATOR and changes nothing (the C19 analogue for the group APIs JoinGroup, SyncGroup, Heartbeat, LeaveGroup, OffsetCommit, OffsetFetch). " + _TECH,
            "note": _NOTE, "technique": _TECH},
}
DEVIATIONS = {  # cfg suffix -> predicate TLC must report
    "StaleGen": "G11_GenMonotone", "StalePersistedGen": "G11_PersistedGenMonotone", "StaleCommit": "G12_StaleCommitRejected",
    "StaleServe": "G13_NoStaleServe", "StaleFenced": "G13_KeepWorking", "StaleMembers": "G13_MembersKept",
    "NoLeaseCheckCommit": "G14_ServedOnlyByHolder", "NoLeaseCheckHeartbeat": "G14_ServedOnlyByHolder",
    "KeepOwnedOnNotice": "G14_ServedOnlyByHolder", "AcquireBlind": "G14_NotCoordinator",
    "SyncNoPersist": "G13_PersistedKept", "RestoreGenZero": "G11_GenMonotone",
}
SPEC = "MC_GroupFailover.tla"
OVERLAY = "cmd/broker/zz_verif_groupfailover_test.go"
SERVED_NOT = (16, 7)


def harness(ctx, scheds, tag):
    sp = os.path.join(ctx.scratch, "sched-%s.ndjson" % tag)
    tp = os.path.join(ctx.scratch, "trace-%s.ndjson" % tag)
    gorun.write_ndjson(sp, scheds)
    rc, out = gorun.go_test(ctx, ".", "./cmd/broker/", {OVERLAY: os.path.join(DIR, "harness", "groupfailover_verif_test.go")},
                            "^TestVerifGroupFailoverReplay$", env={"VERIF_SCHEDULES": sp, "VERIF_TRACE_OUT": tp}, timeout=1500)
    if rc != 0 or "replayed %d schedules" % len(scheds) not in out:
        raise Broken("group failover harness failed:\n" + out[-3000:])
    m = re.search(r"gate hits (\{.*\})", out)
    hits = json.loads(m.group(1)) if m else {}
    return gorun.read_ndjson(tp), hits


def split(rows):
    runs, cur = [], None
    for r in rows:
        if r["ev"] == "Reset":
            cur = []
            runs.append(cur)
        cur.append(r)
    return runs


def served(r):
    return r["ev"] == "Req" and r["code"] not in SERVED_NOT


def proj(g):
    if g["none"]:
        return None
    return (g["gen"], g["phase"], g["leader"], tuple((m["id"], tuple(m["sub"]), tuple(map(tuple, m["asg"]))) for m in g["members"]))


def stale_reacquire(run, upto):
    """Signature class only (never a verdict): did a broker, at or before line `upto` of this run, take the lease while its
    coordinator still held an in-memory copy that differed from the persisted record, and serve the request?"""
    prev = None
    for r in run[:upto + 1]:
        if r["ev"] == "Req" and served(r) and not r["owns0"] and r["key1"] == r["b"] and prev is not None and "st" in prev:
            m = prev["st"]["mem"][r["b"]]
            if not m["none"] and proj(m) != proj(r["stPre"]):
                return True
        if r["ev"] != "Reset":
            prev = r
    return False


def classify(run, k):
    r = run[k]
    if stale_reacquire(run, k):
        return "reacquired-with-stale-copy"
    if r["ev"] != "Req":
        return r["ev"]
    return "lease-taken" if not r["owns0"] and r["key1"] == r["b"] else ("owned" if r["owns0"] else "not-owned")


def nontrivial(run):
    """a failover really happened: two different brokers served a request and the group existed in between"""
    bs = [r["b"] for r in run if served(r) and r["api"] != "Fetch"]
    return len(set(bs)) >= 2 and any(not r.get("stPre", {"none": True})["none"] for r in run if r["ev"] == "Req")


def failback(run):
    bs = [r["b"] for r in run if served(r)]
    seq = [b for i, b in enumerate(bs) if i == 0 or bs[i - 1] != b]
    return len(seq) >= 3


def gen_schedules(ctx, d):
    quick = ctx.quick()
    scheds = []

    def one(dev):
        h, r = T.counterexample_hist(ctx, d, SPEC, "Dev_GroupFailover_%s.cfg" % dev, timeout=900, workers=3)
        return dev, h, r
    with ThreadPoolExecutor(max_workers=4) as ex:
        res = list(ex.map(one, sorted(DEVIATIONS)))
    for dev, h, r in res:
        inv = DEVIATIONS[dev]
        if h is None or inv not in r.violated:
            raise Broken("deviation %s no longer violates %s in the model (vacuous deviation): %s" % (dev, inv, r.violated))
        scheds.append({"label": "dev:" + dev, "steps": h})
    n = 220 if quick else 900
    hs, _ = T.simulate_hists(ctx, d, SPEC, "Sim_GroupFailover.cfg", num=n, depth=22, seed=ctx.seed, timeout=900)
    for h in hs:
        scheds.append({"label": "sim", "steps": h})
    hs2, _ = T.simulate_hists(ctx, d, SPEC, "Sim_GroupFailover_sensible.cfg", num=(150 if quick else 700), depth=26, seed=ctx.seed + 7, timeout=900)
    for h in hs2:
        scheds.append({"label": "sim:sensible", "steps": h})
    hs3, _ = T.simulate_hists(ctx, d, SPEC, "Sim_GroupFailover_clean.cfg", num=(150 if quick else 900), depth=26, seed=ctx.seed + 13, timeout=900)
    for h in hs3:
        scheds.append({"label": "sim:clean", "steps": h})
    return scheds


def run_pipeline(ctx, scheds, tag="main"):
    rows, hits = harness(ctx, scheds, tag)
    runs = split(rows)
    if len(runs) != len(scheds):
        raise Broken("harness recorded %d runs for %d schedules" % (len(runs), len(scheds)))
    # schedules in which the embedded etcd failed an operation (overloaded machine) are no evidence either way: dropped, counted
    keep = [i for i, run in enumerate(runs) if not any(r.get("infra") for r in run)]
    dropped = len(runs) - len(keep)
    if dropped > max(3, len(runs) // 20):
        bad = next(r for run in runs for r in run if r.get("infra"))
        raise Broken("%d of %d schedules hit an etcd/store failure code (UNKNOWN_SERVER_ERROR, or REQUEST_TIMED_OUT with a live session): embedded etcd too slow, no verdict: %s"
                     % (dropped, len(runs), json.dumps({k: v for k, v in bad.items() if k != "st"})[:600]))
    if dropped:
        ctx.log("%d schedules dropped: etcd/store failure codes (machine overloaded)" % dropped)
        runs = [runs[i] for i in keep]
        scheds[:] = [scheds[i] for i in keep]
        rows = [r for run in runs for r in run]
    ctx.infra_dropped = getattr(ctx, "infra_dropped", 0) + dropped
    consumed, viol, r = layers.observe(ctx, DIR, "Obs_GroupFailover.tla", "Obs_GroupFailover.cfg", rows, name="obs-" + tag)
    diag = [(v[0], v[1]) for v in r.prints["OBS"][-1].get("diag", [])]
    return rows, runs, hits, viol, diag


def locate(rows):
    """line number (1-based) -> (schedule index, index inside the run)"""
    loc, si, k = {}, -1, 0
    for i, r in enumerate(rows):
        if r["ev"] == "Reset":
            si, k = si + 1, 0
        else:
            k += 1
        loc[i + 1] = (si, k)
    return loc


def check(ctx, prop):
    quick = ctx.quick()
    d = T.stage(ctx, DIR, "mc")
    mc = T.model_check(ctx, d, SPEC, "MC_GroupFailover_%s.cfg" % ctx.tier, coverage=not quick, timeout=2400, workers=8)
    ctx.log("model: %d distinct states, %d generated, depth %d" % (mc.distinct, mc.generated, mc.depth))
    mc2 = None
    if not quick:  # a third lease move (fail-over, fail-back, fail-over again), one request less
        mc2 = T.model_check(ctx, d, SPEC, "MC_GroupFailover_thorough2.cfg", timeout=2400, workers=8)
        ctx.log("model (3 lease moves): %d distinct states, %d generated, depth %d" % (mc2.distinct, mc2.generated, mc2.depth))
    scheds = gen_schedules(ctx, d)
    ndev = len(DEVIATIONS)
    ctx.log("%d schedules (%d deviation counterexamples, %d simulated)" % (len(scheds), ndev, len(scheds) - ndev))
    rows, runs, hits, viol, diag = run_pipeline(ctx, scheds)
    loc = locate(rows)

    # hook presence: every Notice step must have seen the monitor gate fire
    notices = [r for r in rows if r["ev"] == "Notice"]
    if notices and (hits.get("lease.monitor", 0) == 0 or not all(r.get("monitorGate") for r in notices)):
        raise Broken("gate lease.monitor did not fire for a Notice step (hook missing?): hits=%s" % hits)
    skipped = sum(1 for r in rows if r["ev"] == "Skipped")

    violations, first, saved = [], set(), {}
    all_viol = {}
    for line, inv in sorted(viol):
        si, k = loc[line]
        all_viol.setdefault(inv, 0)
        all_viol[inv] += 1
        if not inv.startswith(prop + "_"):
            continue
        if (si, inv) in first:
            continue  # only the first line of a schedule at which a predicate becomes false
        first.add((si, inv))
        ev = rows[line - 1]
        cls = classify(runs[si], k)
        if cls == "reacquired-with-stale-copy" and inv.startswith("G14"):
            cls = classify([x for x in runs[si][k:k + 1]], 0)  # G14 is about the lease, not about the copy
        # the class "reacquired-with-stale-copy" already names the discriminating situation; otherwise the request kind does
        sig = "%s@%s" % (inv, cls) if cls == "reacquired-with-stale-copy" else "%s@%s:%s" % (inv, ev.get("api", ev["ev"]), cls)
        fname = "sched-%s.json" % re.sub(r"\W", "_", sig)
        if sig not in saved:  # keep the first (shortest: the deviation counterexamples come first) schedule of a signature
            saved[sig] = save_replay(prop, fname, {"schedule": scheds[si], "trace": runs[si], "line": ev, "predicate": inv})
        path = saved[sig]
        slim = {k2: v for k2, v in ev.items() if k2 != "st"}
        violations.append(Violation(prop, sig, "%s false on the real brokers at %s by %s via %s [schedule %s, replay %s]" % (
            inv, ev.get("api", ev["ev"]), ev.get("c", ""), ev["b"], scheds[si]["label"], path), {"schedule": scheds[si], "event": slim}))

    # layer C: schedules whose trace is rejected are recorded and dropped, the rest is re-validated (a few rounds)
    conf = {"accepted": 0, "rejected": 0, "first_rejection": None, "rejected_labels": []}
    todo = list(range(len(runs)))
    for _ in range(6):
        if not todo:
            break
        sub = [r for i in todo for r in runs[i]]
        reached, total, _ = layers.conform(ctx, DIR, "Trace_GroupFailover.tla", "Trace_GroupFailover.cfg", sub, name="conf%d" % len(todo), timeout=1500)
        if reached == total:
            conf["accepted"] += len(todo)
            todo = []
            break
        # find the schedule holding line `reached` (0-based index of the first unconsumed line)
        acc, bad = 0, None
        for i in todo:
            if acc + len(runs[i]) > reached:
                bad = i
                break
            acc += len(runs[i])
        conf["rejected"] += 1
        conf["rejected_labels"].append(scheds[bad]["label"])
        if conf["first_rejection"] is None:
            ln = sub[reached] if reached < len(sub) else None
            conf["first_rejection"] = {"schedule": scheds[bad]["label"], "line": {k2: v for k2, v in (ln or {}).items() if k2 != "st"}, "st": (ln or {}).get("st")}
        conf["accepted"] += todo.index(bad)
        todo = todo[todo.index(bad) + 1:]
    else:
        conf["rejected"] += len(todo)
    try:
        st = self_test(ctx, runs)
    except Broken as e:
        if not violations:
            raise
        st = {"failed_on_a_tree_with_violations": str(e)[:300]}  # never turn a verdict into exit 2
    level = "model_checking"
    drift = conf["rejected"] > 0
    if drift and not violations:
        level = "exploration"
        ctx.log("DRIFT: conformance layer rejected a trace although the G predicates held: " + json.dumps(conf["first_rejection"])[:1500])

    matrix = {}
    for r in rows:
        if r["ev"] == "Req":
            k2 = "%s:%s" % (r["api"], r["code"])
            matrix[k2] = matrix.get(k2, 0) + 1
    win = sum(1 for r in rows if served(r) and r["owns0"] and r["dead0"])
    dcount = {}
    for _, inv in diag:
        dcount[inv] = dcount.get(inv, 0) + 1
    cov = {
        "states": mc.distinct, "transitions": mc.generated, "depth": mc.depth, "exhaustive": True,
        "model_config": "MC_GroupFailover_%s.cfg (2 brokers, 2 members, <=%s requests, <=2 lease moves)" % (ctx.tier, "5" if quick else "6"),
        "traces_validated_against_impl": len(runs), "trace_events": len(rows),
        "evaluations": sum(1 for r in rows if r["ev"] == "Req"),
        "distinct_nontrivial": sum(1 for run in runs if nontrivial(run)),
        "failback_schedules": sum(1 for run in runs if failback(run)),
        "rule": "schedules = TLC counterexamples of the 12 named deviations + TLC -simulate behaviours (seeded; repaired design and pinned design); evaluations = requests judged; non-trivial = two different brokers served a non-Fetch request while the group existed (a failover really happened); failback = the serving broker changed at least twice",
        "deviation_schedules": sorted(DEVIATIONS), "conformance": ("drift" if drift else "accepted"), "conformance_detail": conf,
        "binding_self_test": st, "gate_hits": hits, "skipped_steps": skipped, "schedules_dropped_for_etcd_failures": getattr(ctx, "infra_dropped", 0),
        "all_predicates_violation_lines": all_viol, "requests_by_kind_and_reply_code": matrix,
        "lease_steps": {e: sum(1 for r in rows if r["ev"] == e) for e in ("Expire", "Notice", "Shutdown")},
        "diagnostics": {
            "served_inside_expiry_detection_window": win,
            "predicates_false_if_window_were_not_excused": dcount,
            "meaning": "requests served by a broker whose lease was already dead in etcd while its manager still listed the group as owned, and what the same predicates say about those requests and everything after them in the same schedule; admitted by any lease design without fencing tokens, reported here, never a verdict",
        },
        "samples": [scheds[0], scheds[min(len(scheds) - 1, ndev + 1)], [{k2: v for k2, v in r.items() if k2 != "st"} for r in runs[0][:5]]],
    }
    if not quick:
        cov["action_coverage"] = {k2: v[1] for k2, v in mc.action_coverage().items()}
        cov["second_exhaustive_config"] = {"config": "MC_GroupFailover_thorough2.cfg (2 brokers, 2 members, <=5 requests, <=3 lease moves)", "states": mc2.distinct, "transitions": mc2.generated, "depth": mc2.depth}
    return verdict(ctx, violations, level, cov, [
        "requests are sequential: lease check, coordinator critical section and the synchronous store write of one request are one step",
        "lease expiry = admin Revoke; the broker is told only by the Notice step (keepalive stream under schedule control)",
        "G11-G13 are claimed for histories in which no request has yet been served inside an expiry-detection window; the rest is in coverage.diagnostics",
        "member ids are mapped to numbers in order of creation; the in-memory group is projected by read-only reflection (layer C only)",
        "no clock: session and rebalance timeouts are one hour, cleanupLoop never removes anybody",
    ])


def self_test(ctx, runs):
    """Corrupt recorded fields: layer O must flag a request served by a non-holder, layer C must reject a changed in-memory generation."""
    cands = [x for x in runs if any(served(r) and not (r["owns0"] and r["dead0"]) and r["api"] != "Fetch" for r in x)]
    if not cands:
        raise Broken("binding self-test: no served request recorded")
    res = {}
    for n, run in enumerate(cands[:6]):
        idx = max(i for i, r in enumerate(run) if served(r) and not (r["owns0"] and r["dead0"]) and r["api"] != "Fetch")
        if "observation_layer_flags_corrupted_field" not in res:
            bad = copy.deepcopy(run[:idx + 1])
            bad[idx]["key1"] = "b2" if bad[idx]["b"] == "b1" else "b1"
            _, viol, _ = layers.observe(ctx, DIR, "Obs_GroupFailover.tla", "Obs_GroupFailover.cfg", bad, name="selfO")
            if not any(v[1] == "G14_ServedOnlyByHolder" for v in viol):
                raise Broken("binding self-test: observation layer did not flag a corrupted lease-key owner")
            res["observation_layer_flags_corrupted_field"] = True
        base = copy.deepcopy(run[:idx + 1])
        reached0, total0, _ = layers.conform(ctx, DIR, "Trace_GroupFailover.tla", "Trace_GroupFailover.cfg", base, name="selfC0-%d" % n)
        if reached0 != total0:
            continue  # this trace is not accepted as recorded (drift is reported by the main run): try another one
        tgt = base[idx]
        g = tgt["st"]["mem"][tgt["b"]]
        if g["none"]:
            continue
        g["gen"] += 1
        reached, total, _ = layers.conform(ctx, DIR, "Trace_GroupFailover.tla", "Trace_GroupFailover.cfg", base, name="selfC-%d" % n)
        if reached == total:
            raise Broken("binding self-test: conformance layer accepted a corrupted in-memory generation")
        res["conformance_layer_rejects_corrupted_state"] = True
        break
    if "conformance_layer_rejects_corrupted_state" not in res:
        raise Broken("binding self-test: no recorded trace was accepted by the conformance layer as recorded, nothing to corrupt")
    return res


def replay(ctx, prop, path):
    obj = json.load(open(path))
    sched = obj.get("schedule") or obj.get("detail", {}).get("schedule")
    rows, runs, hits, viol, diag = run_pipeline(ctx, [sched], "replay")
    for r in rows:
        print(json.dumps({k: v for k, v in r.items() if k != "st"}, sort_keys=True))
    bad = [(l, inv) for l, inv in viol if inv.startswith(prop + "_")]
    for line, inv in bad:
        print("VIOLATION property=%s replay=%s" % (prop, path))
        print("  %s false at line %d" % (inv, line))
    for line, inv in diag:
        print("diagnostic (expiry-detection window, not a verdict): %s at line %d" % (inv, line))
    return 1 if bad else 0
