INIT OInit
NEXT Step
CHECK_DEADLOCK FALSE
