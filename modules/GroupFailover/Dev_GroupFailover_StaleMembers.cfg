CONSTANTS
 Brokers = {"b1","b2"}
 Clients = {"m1","m2"}
 MaxReq = 4
 MaxMoves = 2
 MaxGen = 1000
 Apis = {"Join","Sync","Heartbeat","Leave","Commit","Fetch"}
 FixInvalidate = {FALSE}
 DevNoLeaseCheck = {}
 DevKeepOwnedOnNotice = FALSE
 DevAcquireBlind = FALSE
 DevSyncNoPersist = FALSE
 DevRestoreGenZero = FALSE
INIT Init
NEXT Next
PROPERTIES G13_MembersKept
VIEW View
CHECK_DEADLOCK FALSE
