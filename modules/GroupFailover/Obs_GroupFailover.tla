---- MODULE Obs_GroupFailover ----
(* Observation layer: no model actions.  Every recorded step of the two real brokers is turned into the parameters of  *)
(* GroupFailoverProps (request, reply, lease key / persisted group / committed offset before and after, Owns() and     *)
(* lease liveness of the answering broker) and the G11-G14 predicates - the same text GroupFailover.tla checks - are   *)
(* evaluated on these observed values.  Bookkeeping (tainted, lastGen) uses GroupFailoverProps!Next*.                  *)
(* `viol` = verdicts; `diag` = what the same predicates would say if the expiry-detection window were not excused     *)
(* (diagnostics only: reported in the evidence, never a verdict).  Both are printed once (no -continue).               *)
EXTENDS Integers, Sequences, FiniteSets, TLC, Json
TraceLog == ndJsonDeserialize("trace.ndjson")
VARIABLES l, tainted, lastGen, viol, diag
ovars == <<l, tainted, lastGen, viol, diag>>
Range(s) == {s[i] : i \in DOMAIN s}
NoGrp == [none |-> TRUE]
NormP(x) == IF x.none THEN NoGrp
            ELSE LET ms == Range(x.members)
                     ids == {m.id : m \in ms}
                     By(i) == CHOOSE m \in ms : m.id = i
                 IN [none |-> FALSE, gen |-> x.gen, phase |-> x.phase, leader |-> x.leader,
                     sub |-> [i \in ids |-> Range(By(i).sub)], asg |-> [i \in ids |-> Range(By(i).asg)]]
Ev(x) == IF x.ev = "Req"
         THEN [ev |-> "Req", b |-> x.b, api |-> x.api, c |-> x.c, id |-> x.id, gen |-> x.gen, code |-> x.code,
               rgen |-> x.rgen, rleader |-> x.rleader, rid |-> x.rid, list |-> Range(x.list), asg |-> Range(x.asg),
               owns0 |-> x.owns0, dead0 |-> x.dead0, key0 |-> x.key0, key1 |-> x.key1,
               stPre |-> NormP(x.stPre), stPost |-> NormP(x.stPost), offsPre |-> x.offsPre, offsPost |-> x.offsPost]
         ELSE [ev |-> x.ev, b |-> x.b]
P(a) == INSTANCE GroupFailoverProps WITH e <- a.e, tainted <- a.tainted, lastGen <- a.lastGen
Bad(a) == (IF P(a)!G11_GenMonotone THEN {} ELSE {"G11_GenMonotone"}) \cup
          (IF P(a)!G11_PersistedGenMonotone THEN {} ELSE {"G11_PersistedGenMonotone"}) \cup
          (IF P(a)!G12_StaleCommitRejected THEN {} ELSE {"G12_StaleCommitRejected"}) \cup
          (IF P(a)!G12_StaleNoCommit THEN {} ELSE {"G12_StaleNoCommit"}) \cup
          (IF P(a)!G13_KeepWorking THEN {} ELSE {"G13_KeepWorking"}) \cup
          (IF P(a)!G13_NoStaleServe THEN {} ELSE {"G13_NoStaleServe"}) \cup
          (IF P(a)!G13_JoinReportsPersisted THEN {} ELSE {"G13_JoinReportsPersisted"}) \cup
          (IF P(a)!G13_PersistedKept THEN {} ELSE {"G13_PersistedKept"}) \cup
          (IF P(a)!G13_MembersKept THEN {} ELSE {"G13_MembersKept"}) \cup
          (IF P(a)!G14_ServedOnlyByHolder THEN {} ELSE {"G14_ServedOnlyByHolder"}) \cup
          (IF P(a)!G14_NotCoordinator THEN {} ELSE {"G14_NotCoordinator"})
OInit == l = 0 /\ tainted = FALSE /\ lastGen = 0 /\ viol = {} /\ diag = {}
Emit == (l' = Len(TraceLog)) => PrintT(<<"OBS", ToJson([consumed |-> l', viol |-> viol', diag |-> diag'])>>)
Step ==
  /\ l < Len(TraceLog) /\ l' = l + 1
  /\ LET x == TraceLog[l + 1] IN
     IF x.ev = "Reset" THEN tainted' = FALSE /\ lastGen' = 0 /\ UNCHANGED <<viol, diag>> /\ Emit
     ELSE IF x.ev = "Skipped" THEN UNCHANGED <<tainted, lastGen, viol, diag>> /\ Emit
     ELSE LET e == Ev(x)
              a == [e |-> e, tainted |-> tainted, lastGen |-> lastGen]
              \* the same predicates with the window not excused: what the split brain inside / after the window looks like
              u == [e |-> IF e.ev = "Req" THEN [e EXCEPT !.dead0 = FALSE] ELSE e, tainted |-> FALSE, lastGen |-> lastGen]
              bad == Bad(a)
          IN /\ viol' = viol \cup {<<l + 1, n>> : n \in bad}
             /\ diag' = diag \cup {<<l + 1, n>> : n \in (Bad(u) \ bad)}
             /\ tainted' = P(a)!NextTainted /\ lastGen' = P(a)!NextLastGen
             /\ Emit
OSpec == OInit /\ [][Step]_ovars
====
