CONSTANTS
 Brokers = {"b1","b2"}
 Clients = {"m1","m2"}
 MaxReq = 5
 MaxMoves = 3
 MaxGen = 1000
 Apis = {"Join","Sync","Heartbeat","Leave","Commit","Fetch"}
 FixInvalidate = {TRUE}
 DevNoLeaseCheck = {}
 DevKeepOwnedOnNotice = FALSE
 DevAcquireBlind = FALSE
 DevSyncNoPersist = FALSE
 DevRestoreGenZero = FALSE
INIT Init
NEXT Next
PROPERTIES AllG
INVARIANTS OwnedMeansKey HolderInSync
VIEW View
CHECK_DEADLOCK FALSE
