---- MODULE GroupFailover ----
(* Two brokers, each with its own GroupCoordinator (pkg/broker/coordinator.go) over ONE shared metadata store, and *)
(* the consumer-group lease (pkg/metadata/group_lease.go + lease_manager.go; cmd/broker/main.go acquireGroupLease  *)
(* and the group-API dispatch in handler.Handle) that decides which broker coordinates the single group "g".       *)
(*                                                                                                                 *)
(* Granularity: one action per client request routed to a chosen broker (the harness is sequential: lease check,   *)
(* coordinator critical section and the synchronous store write are one step), plus the environment:               *)
(*   Expire(b)   etcd expires b's session lease (admin Revoke): the lease key vanishes, b has not been told        *)
(*   Notice(b)   b's keepalive stream ends, monitorSession clears the ownership map                                *)
(*   Shutdown(b) GroupLeaseManager.ReleaseAll (graceful shutdown): session closed, every later request refused     *)
(* The coordinator part is Group.tla reduced to what the failover question needs: no clock (sessions never lapse), *)
(* fixed subscription per client, member ids are explicit numbers because two copies of the group can disagree     *)
(* about who is a member (ids are rand.Int63 in the code; the harness maps them in order of creation).             *)
(* Clients behave like Kafka clients: they send the member id and the generation of their last JoinGroup reply,    *)
(* whichever broker gave it.  Leader choice and round-robin order are nondeterministic (smallest random id).       *)
EXTENDS Integers, Sequences, FiniteSets, TLC, Json
CONSTANTS Brokers, Clients, MaxReq, MaxMoves, MaxGen,
          Apis,                 \* request kinds generated
          FixInvalidate,        \* subset of BOOLEAN.  TRUE: a broker that (re)acquires the group lease forgets its in-memory copy
                                \*   of the group (proposed repair); FALSE: the pinned tree - c.groups[g] is never invalidated.
                                \*   {TRUE} in the exhaustive configs, {FALSE} in the Stale* deviations, {TRUE,FALSE} in layer C
                                \*   (the recorded state resolves which design the tree has)
          DevNoLeaseCheck,      \* set of request kinds whose handler branch forgets acquireGroupLease
          DevKeepOwnedOnNotice, \* monitorSession does not clear the ownership map
          DevAcquireBlind,      \* acquire overwrites a key held by another broker
          DevSyncNoPersist,     \* the leader's SyncGroup does not persist the assignment
          DevRestoreGenZero     \* restoreGroupState forgets the generation
VARIABLES key,      \* the etcd lease key of the group: [owner |-> broker or "", lease |-> lease id]
          sess,     \* broker -> lease id of its manager's current session (0 = none)
          owned,    \* broker -> the manager's ownership map lists the group
          closed,   \* broker -> ReleaseAll was called
          dead,     \* lease ids expired / revoked in etcd
          nlease,   \* lease ids granted so far
          mem,      \* broker -> c.groups["g"] of that broker's coordinator ([none |-> TRUE] when absent)
          store,    \* the persisted ConsumerGroup record ([none |-> TRUE] when absent)
          offs,     \* committed offset of (g, t1, 0); -1 = none
          idOwner,  \* member id (index) -> client it was handed to
          mid, known,   \* client -> member id / generation of its last JoinGroup reply (0 = none)
          nreq, moves,
          tainted, lastGen,   \* observation bookkeeping (GroupFailoverProps!NextTainted / NextLastGen)
          last, hist
vars == <<key, sess, owned, closed, dead, nlease, mem, store, offs, idOwner, mid, known, nreq, moves, tainted, lastGen, last, hist>>

PE == "empty"  PP == "preparing_rebalance"  PC == "completing_rebalance"  PS == "stable"
Sub(c) == IF c = "m1" THEN {"t1"} ELSE IF c = "m2" THEN {"t1", "t2"} ELSE {"t2"}
AllTP == {<<"t1", 0>>, <<"t1", 1>>, <<"t2", 0>>}
NoGrp == [none |-> TRUE]
NoKey == [owner |-> "", lease |-> 0]
Mem(g) == IF g.none THEN {} ELSE DOMAIN g.jg
\* in-memory group: [none, gen, leader (id; 0 = ""), phase, jg : id -> joinGeneration, asg : id -> SUBSET AllTP]
EmptyGrp == [none |-> FALSE, gen |-> 0, leader |-> 0, phase |-> PE, jg |-> <<>>, asg |-> <<>>]
Restrict(f, S) == [x \in S |-> f[x]]

Init == /\ key = NoKey /\ sess = [b \in Brokers |-> 0] /\ owned = [b \in Brokers |-> FALSE] /\ closed = [b \in Brokers |-> FALSE]
        /\ dead = {} /\ nlease = 0 /\ mem = [b \in Brokers |-> NoGrp] /\ store = NoGrp /\ offs = -1
        /\ idOwner = <<>> /\ mid = [c \in Clients |-> 0] /\ known = [c \in Clients |-> 0]
        /\ nreq = 0 /\ moves = 0 /\ tainted = FALSE /\ lastGen = 0 /\ last = [ev |-> "Init"] /\ hist = <<>>

\* ---------------------------------------------------------------- coordinator helpers (as in Group.tla)
EnsureLeaderSet(g) ==
  IF g.leader # 0 /\ g.leader \in Mem(g) THEN {g}
  ELSE IF Mem(g) = {} THEN {[g EXCEPT !.leader = 0]}
  ELSE {[g EXCEPT !.leader = l] : l \in Mem(g)}
StartRebalanceSet(g) ==
  IF Mem(g) = {} THEN {[g EXCEPT !.phase = PE, !.asg = <<>>, !.leader = 0]}
  ELSE LET g1 == [g EXCEPT !.gen = @ + 1, !.phase = PP, !.asg = [m \in Mem(g) |-> {}], !.jg = [m \in Mem(g) |-> 0]]
       IN EnsureLeaderSet(g1)
AllJoined(g) == Mem(g) # {} /\ \A m \in Mem(g) : g.jg[m] = g.gen
\* persistGroupLocked / buildConsumerGroup: generation, phase, leader, members with their assignments
Persist(g) == IF g.none \/ Mem(g) = {} THEN NoGrp
              ELSE [none |-> FALSE, gen |-> g.gen, leader |-> g.leader, phase |-> g.phase, asg |-> g.asg]
\* restoreGroupState: every member counts as joined
RestoreSet(s) == LET gen == IF DevRestoreGenZero THEN 0 ELSE s.gen IN
                 EnsureLeaderSet([none |-> FALSE, gen |-> gen, leader |-> s.leader, phase |-> s.phase,
                                  jg |-> [m \in DOMAIN s.asg |-> gen], asg |-> s.asg])
\* loadGroupIfMissing on a coordinator whose memory is m0
Loaded(m0) == IF ~m0.none THEN {m0} ELSE IF store.none THEN {NoGrp} ELSE RestoreSet(store)
Perms(S) == {f \in [1..Cardinality(S) -> S] : \A i, j \in 1..Cardinality(S) : i # j => f[i] # f[j]}
TopicsOf(own, m) == Sub(own[m])
AssignOf(g, ord, own) ==
  [m \in Mem(g) |-> {tp \in AllTP :
       LET el == SelectSeq(ord, LAMBDA x : tp[1] \in TopicsOf(own, x))
       IN el # <<>> /\ el[(tp[2] % Len(el)) + 1] = m}]
AssignSet(g, own) == {AssignOf(g, ord, own) : ord \in Perms(Mem(g))}

\* projection used by the properties (GroupFailoverProps: [none, gen, phase, leader, sub, asg])
PView(s, own) == IF s.none THEN NoGrp
                 ELSE [none |-> FALSE, gen |-> s.gen, phase |-> s.phase, leader |-> s.leader,
                       sub |-> [m \in DOMAIN s.asg |-> TopicsOf(own, m)], asg |-> s.asg]

\* ---------------------------------------------------------------- the group lease as one request sees it
\* LeaseManager.Acquire: ownership map first (no etcd round trip), otherwise session + create-if-absent transaction
Lease(b) ==
  LET R(ok, code, fresh, k, s, o, n) == [ok |-> ok, code |-> code, fresh |-> fresh, key |-> k, sess |-> s, owned |-> o, nlease |-> n] IN
  IF closed[b] THEN R(FALSE, 16, FALSE, key, sess, owned, nlease)                 \* ErrShuttingDown
  ELSE IF owned[b] THEN R(TRUE, 0, FALSE, key, sess, owned, nlease)
  ELSE LET new == sess[b] = 0
           s == IF new THEN nlease + 1 ELSE sess[b]
           n == IF new THEN nlease + 1 ELSE nlease
           sess1 == [sess EXCEPT ![b] = s]
           take == R(TRUE, 0, TRUE, [owner |-> b, lease |-> s], sess1, [owned EXCEPT ![b] = TRUE], n)
       IN IF key.owner = "" THEN (IF s \in dead THEN R(FALSE, 7, FALSE, key, sess1, owned, n)    \* "requested lease not found"
                                  ELSE take)
          ELSE IF key.owner = b THEN take                                                        \* reacquire
          ELSE IF DevAcquireBlind /\ s \notin dead THEN take
          ELSE R(FALSE, 16, FALSE, key, sess1, owned, n)                                         \* ErrNotOwner

\* ---------------------------------------------------------------- coordinator methods: sets of outcomes
\* outcome: [g (memory after), st (store after), of (offset after), r (reply fields), own (idOwner after), nid (id handed out or 0)]
Out(g, st, of, r) == [g |-> g, st |-> st, of |-> of, r |-> r, own |-> idOwner, nid |-> 0]
NoReply == [rgen |-> 0, rleader |-> 0, rid |-> 0, list |-> {}, asg |-> {}]
Rep(code) == [code |-> code] @@ NoReply

JoinOut(c, m0) ==
  UNION {
    LET g == IF g0.none THEN EmptyGrp ELSE g0
        id0 == mid[c]
        exists == id0 # 0 /\ id0 \in Mem(g)
        id == IF exists THEN id0 ELSE Len(idOwner) + 1
        own == IF exists THEN idOwner ELSE Append(idOwner, c)
        ms == Mem(g) \cup {id}
        g1 == [g EXCEPT !.jg = [m \in ms |-> IF m \in Mem(g) THEN g.jg[m] ELSE 0],
                        !.asg = [m \in ms |-> IF m \in Mem(g) THEN g.asg[m] ELSE {}]]
        cands == IF Cardinality(ms) = 1 /\ g1.phase = PE THEN StartRebalanceSet([g1 EXCEPT !.leader = id])
                 ELSE IF g1.phase = PS /\ ~exists THEN StartRebalanceSet(g1)
                 ELSE IF g1.phase = PE THEN StartRebalanceSet(g1)
                 ELSE {g1}
    IN UNION {
         LET g3 == [g2 EXCEPT !.jg[id] = g2.gen] IN
         { LET ready0 == g4.phase \in {PS, PC}
               complete == ~ready0 /\ AllJoined(g4)
               g5 == IF complete THEN [g4 EXCEPT !.phase = PC] ELSE g4
               ready == ready0 \/ complete
           IN [g |-> g5, st |-> Persist(g5), of |-> offs, own |-> own, nid |-> id,
               r |-> [code |-> IF ready THEN 0 ELSE 27, rgen |-> g5.gen, rleader |-> g5.leader, rid |-> id,
                      list |-> IF ready /\ id = g5.leader THEN Mem(g5) ELSE {}, asg |-> {}]]
           : g4 \in (IF g3.leader = 0 THEN EnsureLeaderSet(g3) ELSE {g3}) }
         : g2 \in cands }
    : g0 \in Loaded(m0) }

SyncOut(c, m0) ==
  UNION {
    LET id == mid[c]  gen == known[c] IN
    IF g.none THEN {Out(m0, store, offs, Rep(25))}
    ELSE IF gen # g.gen THEN {Out(g, store, offs, Rep(22))}
    ELSE IF id \notin Mem(g) THEN {Out(g, store, offs, Rep(25))}
    ELSE IF g.phase = PP THEN {Out(g, store, offs, Rep(27))}
    ELSE IF g.phase = PC /\ id # g.leader THEN {Out(g, store, offs, Rep(27))}
    ELSE { LET g1 == IF g.phase = PC THEN [g EXCEPT !.asg = a, !.phase = PS] ELSE g
           IN Out(g1, IF DevSyncNoPersist /\ g.phase = PC THEN store ELSE Persist(g1), offs, [Rep(0) EXCEPT !.asg = g1.asg[id]])
           : a \in (IF g.phase = PC THEN AssignSet(g, idOwner) ELSE {g.asg}) }
    : g \in Loaded(m0) }

HeartbeatOut(c, m0) ==
  { LET id == mid[c]  gen == known[c] IN
    IF g.none THEN Out(m0, store, offs, Rep(25))
    ELSE IF id \notin Mem(g) THEN Out(g, store, offs, Rep(25))
    ELSE IF gen # g.gen THEN Out(g, store, offs, Rep(22))
    ELSE Out(g, Persist(g), offs, Rep(IF g.phase = PS THEN 0 ELSE 27))
    : g \in Loaded(m0) }

LeaveOut(c, m0) ==
  UNION {
    LET id == mid[c] IN
    IF g.none THEN {Out(m0, store, offs, Rep(25))}
    ELSE IF id \notin Mem(g) THEN {Out(g, store, offs, Rep(25))}
    ELSE LET rest == Mem(g) \ {id}
             g1 == [g EXCEPT !.jg = Restrict(g.jg, rest), !.asg = Restrict(g.asg, rest)] IN
         IF rest = {} THEN {Out(NoGrp, NoGrp, offs, Rep(0))}
         ELSE {Out(g2, Persist(g2), offs, Rep(0)) : g2 \in StartRebalanceSet(IF g1.leader = id THEN [g1 EXCEPT !.leader = 0] ELSE g1)}
    : g \in Loaded(m0) }

CommitOut(c, m0) ==
  { LET id == mid[c]  gen == known[c]
        code == IF g.none THEN 25 ELSE IF id \notin Mem(g) THEN 25 ELSE IF gen # g.gen THEN 22 ELSE 0
    IN Out(IF g.none THEN m0 ELSE g, store, IF code = 0 THEN nreq + 1 ELSE offs, Rep(code))
    : g \in Loaded(m0) }

FetchOut(m0) == {Out(m0, store, offs, Rep(0))}     \* OffsetFetch reads the store; the group is not touched

CoordOut(api, c, m0) ==
  CASE api = "Join" -> JoinOut(c, m0)
    [] api = "Sync" -> SyncOut(c, m0)
    [] api = "Heartbeat" -> HeartbeatOut(c, m0)
    [] api = "Leave" -> LeaveOut(c, m0)
    [] api = "Commit" -> CommitOut(c, m0)
    [] api = "Fetch" -> FetchOut(m0)

\* ---------------------------------------------------------------- shared property text + bookkeeping
P == INSTANCE GroupFailoverProps WITH e <- last', tainted <- tainted, lastGen <- lastGen
Book == /\ tainted' = P!NextTainted /\ lastGen' = P!NextLastGen

ReqRec(b, api, c, l, code, r, own1, st1, of1) ==
  [ev |-> "Req", b |-> b, api |-> api, c |-> c, id |-> mid[c], gen |-> known[c], code |-> code,
   rgen |-> r.rgen, rleader |-> r.rleader, rid |-> r.rid, list |-> r.list, asg |-> r.asg,
   owns0 |-> owned[b], dead0 |-> (sess[b] \in dead), key0 |-> key.owner, key1 |-> l.key.owner, fresh |-> l.fresh,
   stPre |-> PView(store, own1), stPost |-> PView(st1, own1), offsPre |-> offs, offsPost |-> of1]

\* one client request routed to broker b: handler.Handle -> acquireGroupLease -> coordinator
Req(b, api, c) ==
  /\ nreq < MaxReq
  /\ (api = "Fetch" => c = CHOOSE x \in Clients : TRUE)     \* OffsetFetch carries no member: one client suffices
  /\ LET l == IF api \in DevNoLeaseCheck THEN [ok |-> TRUE, code |-> 0, fresh |-> FALSE, key |-> key, sess |-> sess, owned |-> owned, nlease |-> nlease]
              ELSE Lease(b) IN
     /\ key' = l.key /\ sess' = l.sess /\ owned' = l.owned /\ nlease' = l.nlease
     /\ IF ~l.ok
        THEN /\ last' = ReqRec(b, api, c, l, l.code, NoReply, idOwner, store, offs)
             /\ UNCHANGED <<mem, store, offs, idOwner, mid, known>>
        ELSE \E fix \in FixInvalidate :
             LET m0 == IF l.fresh /\ fix THEN NoGrp ELSE mem[b] IN
             \E o \in CoordOut(api, c, m0) :
               /\ mem' = [mem EXCEPT ![b] = o.g] /\ store' = o.st /\ offs' = o.of /\ idOwner' = o.own
               /\ mid' = IF api = "Join" THEN [mid EXCEPT ![c] = o.r.rid] ELSE mid
               /\ known' = IF api = "Join" THEN [known EXCEPT ![c] = o.r.rgen] ELSE known
               /\ last' = ReqRec(b, api, c, l, o.r.code, o.r, o.own, o.st, o.of)
  /\ nreq' = nreq + 1
  /\ hist' = Append(hist, [a |-> "Req", b |-> b, api |-> api, c |-> c])
  /\ UNCHANGED <<closed, dead, moves>> /\ Book

\* etcd expires b's session lease (TTL ran out without keepalives / admin Revoke): attached keys vanish; b is not told yet
Expire(b) ==
  /\ moves < MaxMoves /\ sess[b] # 0 /\ sess[b] \notin dead /\ ~closed[b]
  /\ dead' = dead \cup {sess[b]}
  /\ key' = IF key.lease = sess[b] THEN NoKey ELSE key
  /\ moves' = moves + 1
  /\ last' = [ev |-> "Expire", b |-> b] /\ hist' = Append(hist, [a |-> "Expire", b |-> b])
  /\ UNCHANGED <<sess, owned, closed, nlease, mem, store, offs, idOwner, mid, known, nreq>> /\ Book

\* b's keepalive stream ends (Session.Done), monitorSession clears the ownership map; the in-memory groups stay
Notice(b) ==
  /\ sess[b] # 0 /\ sess[b] \in dead /\ ~closed[b]
  /\ sess' = [sess EXCEPT ![b] = 0]
  /\ owned' = IF DevKeepOwnedOnNotice THEN owned ELSE [owned EXCEPT ![b] = FALSE]
  /\ last' = [ev |-> "Notice", b |-> b] /\ hist' = Append(hist, [a |-> "Notice", b |-> b])
  /\ UNCHANGED <<key, closed, dead, nlease, mem, store, offs, idOwner, mid, known, nreq, moves>> /\ Book

\* graceful shutdown: ReleaseAll closes the session (etcd revokes the lease, the key vanishes); the manager refuses from now on
Shutdown(b) ==
  /\ moves < MaxMoves /\ ~closed[b] /\ sess[b] # 0 /\ sess[b] \notin dead
  /\ closed' = [closed EXCEPT ![b] = TRUE] /\ owned' = [owned EXCEPT ![b] = FALSE]
  /\ dead' = dead \cup {sess[b]} /\ sess' = [sess EXCEPT ![b] = 0]
  /\ key' = IF key.lease = sess[b] THEN NoKey ELSE key
  /\ moves' = moves + 1
  /\ last' = [ev |-> "Shutdown", b |-> b] /\ hist' = Append(hist, [a |-> "Shutdown", b |-> b])
  /\ UNCHANGED <<nlease, mem, store, offs, idOwner, mid, known, nreq>> /\ Book

ReqStep == \E b \in Brokers, api \in Apis, c \in Clients : Req(b, api, c)
ExpireStep == \E b \in Brokers : Expire(b)
NoticeStep == \E b \in Brokers : Notice(b)
ShutdownStep == \E b \in Brokers : Shutdown(b)
Next == ReqStep \/ ExpireStep \/ NoticeStep \/ ShutdownStep
Spec == Init /\ [][Next]_vars

\* ---------------------------------------------------------------- properties (GroupFailoverProps, action properties over a step)
G11_GenMonotone == [][P!G11_GenMonotone]_vars
G11_PersistedGenMonotone == [][P!G11_PersistedGenMonotone]_vars
G12_StaleCommitRejected == [][P!G12_StaleCommitRejected]_vars
G12_StaleNoCommit == [][P!G12_StaleNoCommit]_vars
G13_KeepWorking == [][P!G13_KeepWorking]_vars
G13_NoStaleServe == [][P!G13_NoStaleServe]_vars
G13_JoinReportsPersisted == [][P!G13_JoinReportsPersisted]_vars
G13_PersistedKept == [][P!G13_PersistedKept]_vars
G13_MembersKept == [][P!G13_MembersKept]_vars
G14_ServedOnlyByHolder == [][P!G14_ServedOnlyByHolder]_vars
G14_NotCoordinator == [][P!G14_NotCoordinator]_vars
AllG == [][/\ P!G11_GenMonotone /\ P!G11_PersistedGenMonotone /\ P!G12_StaleCommitRejected /\ P!G12_StaleNoCommit
           /\ P!G13_KeepWorking /\ P!G13_NoStaleServe /\ P!G13_JoinReportsPersisted /\ P!G13_PersistedKept /\ P!G13_MembersKept
           /\ P!G14_ServedOnlyByHolder /\ P!G14_NotCoordinator]_vars

\* internal facts of the model (conformance level, not part of any property)
\* C18 at this granularity: the ownership map and the key agree unless the broker sits in its expiry-detection window
OwnedMeansKey == \A b \in Brokers : (owned[b] /\ sess[b] \notin dead) => (key.owner = b /\ key.lease = sess[b])
\* on a clean history the lease holder's memory is what a restore of the store would give (C15 at the holder)
HolderInSync == \A b \in Brokers : (~tainted /\ owned[b] /\ sess[b] \notin dead /\ ~mem[b].none) =>
                   (~store.none /\ store.gen = mem[b].gen /\ store.phase = mem[b].phase /\ store.leader = mem[b].leader /\ store.asg = mem[b].asg)

GenBound == \A b \in Brokers : mem[b].none \/ mem[b].gen <= MaxGen
View == <<key, sess, owned, closed, dead, nlease, mem, store, idOwner, mid, known, nreq, moves, tainted, lastGen, offs # -1>>
Terminal == nreq = MaxReq
EmitSched == Terminal => PrintT(<<"SCHED", ToJson(hist)>>)
====
