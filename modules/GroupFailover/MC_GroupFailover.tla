---- MODULE MC_GroupFailover ----
EXTENDS GroupFailover
\* simulation only: a mix in which lease moves are as likely as requests (a uniform choice among ~25 requests rarely moves the lease),
\* and requests go preferably to the broker that can serve
MoveStep == ExpireStep \/ NoticeStep
NextSim == ReqStep \/ MoveStep \/ ShutdownStep
====
