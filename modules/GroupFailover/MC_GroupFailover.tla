---- MODULE MC_GroupFailover ----
EXTENDS GroupFailover
\* simulation only: clients that have never joined do not send member requests, requests go to a broker that is not shut down
\* (a uniform choice among all requests is mostly noise: unknown members, closed brokers)
SensibleReq == \E b \in Brokers, api \in Apis, c \in Clients :
                  /\ ~closed[b]
                  /\ (api \in {"Sync", "Heartbeat", "Leave", "Commit"} => mid[c] # 0)
                  /\ (api = "Fetch" => c = CHOOSE x \in Clients : TRUE)
                  /\ Req(b, api, c)
NextSim == ReqStep \/ ExpireStep \/ NoticeStep \/ ShutdownStep
NextSensible == SensibleReq \/ ExpireStep \/ NoticeStep
\* ... and nobody talks to a broker that sits in its expiry-detection window: the history stays clean, fail-overs and fail-backs are judged
CleanReq == \E b \in Brokers, api \in Apis, c \in Clients :
               /\ ~closed[b] /\ ~(owned[b] /\ sess[b] \in dead)
               /\ (api \in {"Sync", "Heartbeat", "Leave", "Commit"} => mid[c] # 0)
               /\ (api = "Fetch" => c = CHOOSE x \in Clients : TRUE)
               /\ Req(b, api, c)
NextClean == CleanReq \/ ExpireStep \/ NoticeStep
====
