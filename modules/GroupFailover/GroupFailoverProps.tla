---- MODULE GroupFailoverProps ----
(* G11 G12 G13 G14 stated ONCE over parameters describing one request answered by one broker.              *)
(* GroupFailover.tla instantiates it with model values (primed variables: the predicates are action        *)
(* properties), Obs_GroupFailover.tla with values observed on two real brokers over one etcd.              *)
(*                                                                                                         *)
(* A group is [none |-> TRUE] or [none |-> FALSE, gen, phase, leader, sub : id -> SUBSET topics,           *)
(* asg : id -> SUBSET TP] (member ids are numbers: real ids are mapped in order of creation).              *)
(* Everything the predicates speak about is observable from outside the brokers: the request, the reply,   *)
(* the persisted ConsumerGroup record before/after (etcd), the committed offset before/after (etcd), the   *)
(* group-lease key (etcd), the liveness of the answering broker's etcd lease (admin client) and            *)
(* GroupLeaseManager.Owns() of the answering broker before the request.                                    *)
(*                                                                                                         *)
(* READING (see NOTES.md).  Between the moment etcd expires a broker's session lease and the moment that   *)
(* broker's lease manager is told (monitorSession), the broker still lists the group as owned and answers  *)
(* from memory.  Every lease design without fencing tokens admits this *expiry-detection window*; what a   *)
(* broker does inside it, and everything that follows from it (two coordinators writing one record), is    *)
(* reported as a diagnostic, never as a verdict:                                                           *)
(*   Win   = the answering broker listed the group as owned AND its lease was already dead in etcd         *)
(*   Clean = no request of this history has so far been *served* by a broker in its window                 *)
(* G11-G13 are claimed on Clean histories only; G14 names the window explicitly.                           *)
EXTENDS Integers, FiniteSets
CONSTANTS e,        \* the step.  ev = "Req": [b, api, c, id (member id sent; 0 = none), gen (generation sent), code,
                    \*    rgen/rleader/rid/list (Join reply), asg (Sync reply), owns0, dead0, key0, key1 (lease key owner before/after; "" = absent),
                    \*    stPre, stPost (persisted group before/after), offsPre, offsPost]
                    \*  ev \in {"Expire","Notice","Shutdown"}: [b]
          tainted,  \* some earlier request was served inside an expiry-detection window
          lastGen   \* highest generation reported in a JoinGroup reply since the group last came into existence (0 = none)

NONE == 0
REQUEST_TIMED_OUT == 7
NOT_COORDINATOR == 16
ILLEGAL_GENERATION == 22
UNKNOWN_MEMBER_ID == 25
REBALANCE_IN_PROGRESS == 27

IsReq == e.ev = "Req"
Mem(g) == IF g.none THEN {} ELSE DOMAIN g.sub
Served == IsReq /\ e.code \notin {NOT_COORDINATOR, REQUEST_TIMED_OUT}
Win == IsReq /\ e.owns0 /\ e.dead0
Clean == ~tainted /\ ~(Served /\ Win)
Judged == Served /\ Clean
Proj(g) == IF g.none THEN <<"none">> ELSE <<g.gen, g.phase, g.leader, g.sub, g.asg>>
\* the sender is not a member of the current generation as persisted by the lease holder
Stale == e.stPre.none \/ e.id \notin Mem(e.stPre) \/ e.gen # e.stPre.gen

\* ------------------------------------------------------------------ G11 (extends C13 sentence 2, C15)
\* generation numbers reported to members never decrease across failovers and fail-backs while the group exists
G11_GenMonotone == (Judged /\ e.api = "Join") => e.rgen >= lastGen
\* ... nor does the generation of the persisted record (what the next coordinator will report)
G11_PersistedGenMonotone == (Judged /\ ~e.stPre.none /\ ~e.stPost.none) => e.stPost.gen >= e.stPre.gen

\* ------------------------------------------------------------------ G12 (extends C13 sentence 1)
G12_StaleCommitRejected == (Judged /\ e.api = "Commit" /\ Stale) => e.code # NONE
G12_StaleNoCommit == (IsReq /\ Clean /\ e.api = "Commit" /\ Stale) => e.offsPost = e.offsPre

\* ------------------------------------------------------------------ G13 (extends C15)
\* whoever answers reports what the previous coordinator persisted: current-generation members keep working ...
G13_KeepWorking == (Judged /\ e.api \in {"Sync", "Heartbeat", "Commit"} /\ ~Stale /\ e.stPre.phase = "stable") =>
                      (e.code = NONE /\ (e.api = "Sync" => e.asg = e.stPre.asg[e.id]))
\* ... nobody is served from a copy that is older than the persisted record ...
G13_NoStaleServe == (Judged /\ e.api \in {"Sync", "Heartbeat"} /\ Stale) => e.code # NONE
\* ... a JoinGroup reply carries the generation / leader of the record persisted with it, one step from the previous one ...
G13_JoinReportsPersisted ==
   (Judged /\ e.api = "Join" /\ e.code \in {NONE, REBALANCE_IN_PROGRESS}) =>
      /\ ~e.stPost.none /\ e.rgen = e.stPost.gen /\ e.rleader = e.stPost.leader
      /\ (e.list # {} => e.list = Mem(e.stPost))
      /\ (~e.stPre.none => e.rgen \in {e.stPre.gen, e.stPre.gen + 1})
\* ... requests that do not change membership leave generation, leader, members, subscriptions and assignments as persisted ...
G13_PersistedKept ==
   (IsReq /\ Clean /\ (e.api \in {"Heartbeat", "Commit", "Fetch"} \/ ~Served \/ (e.api = "Sync" /\ ~e.stPre.none /\ e.stPre.phase = "stable")))
      => Proj(e.stPost) = Proj(e.stPre)
\* ... and the others change only the requester (no member of the persisted record is dropped or resurrected)
G13_MembersKept ==
   (Judged /\ e.api \in {"Join", "Leave", "Sync"}) =>
      /\ (e.api = "Join" /\ e.code \in {NONE, REBALANCE_IN_PROGRESS}) => Mem(e.stPost) = Mem(e.stPre) \cup {e.rid}
      /\ (e.api = "Leave") => Mem(e.stPost) = (IF e.code = NONE THEN Mem(e.stPre) \ {e.id} ELSE Mem(e.stPre))
      /\ (e.api = "Sync") => (Mem(e.stPost) = Mem(e.stPre) /\ (~e.stPre.none => e.stPost.gen = e.stPre.gen))
      /\ \A m \in Mem(e.stPost) \cap Mem(e.stPre) : e.stPost.sub[m] = e.stPre.sub[m]

\* ------------------------------------------------------------------ G14 (the C19 analogue for groups)
\* a request is served only by the broker whose id is in the group-lease key when the request has been answered
\* (the lease check either found the local ownership entry - then the key is this broker's unless it sits in its
\* expiry-detection window - or ran the create-if-absent transaction)
G14_ServedOnlyByHolder == Served => (e.key1 = e.b \/ Win)
\* another broker holds the lease and this one does not believe otherwise: NOT_COORDINATOR, nothing changes
G14_NotCoordinator == (IsReq /\ e.key0 \notin {"", e.b} /\ ~e.owns0) =>
                         (e.code = NOT_COORDINATOR /\ e.key1 = e.key0 /\ Proj(e.stPost) = Proj(e.stPre) /\ e.offsPost = e.offsPre)

\* ------------------------------------------------------------------ bookkeeping (same rule for the model and for layer O)
NextTainted == tainted \/ (Served /\ Win)
NextLastGen == IF ~IsReq \/ ~Served THEN lastGen
               ELSE IF e.stPost.none THEN 0
               ELSE IF e.api = "Join" /\ e.code \in {NONE, REBALANCE_IN_PROGRESS} /\ e.rgen > lastGen THEN e.rgen
               ELSE lastGen
====
