---- MODULE Trace_ConsoleAuth ----
(* Conformance layer: every recorded HTTP exchange must be the ConsoleAuth.tla action of the    *)
(* same name with the same arguments and the same outcome (admitted?, token issued, served by   *)
(* all protected routes?), and the in-package projection of authManager.sessions and            *)
(* loginRateLimiter.hits must equal the model's post-state.                                     *)
EXTENDS ConsoleAuth
TraceLog == ndJsonDeserialize("trace.ndjson")
Tok12 == <<"t1", "t2", "t3", "t4", "t5", "t6", "t7", "t8", "t9", "t10", "t11", "t12">>
TB_trace == (30 :> 1000000) @@ (14400 :> 1000000)
VARIABLES l, hasSt
tvars == <<vars, l, hasSt>>
E == TraceLog[l]
Cur(ev) == l <= Len(TraceLog) /\ E.ev = ev /\ l' = l + 1 /\ hasSt' = hasSt
StMatch(st) == hasSt => /\ \A t \in TokenSet : sessions'[t] = st.sessions[t]
                        /\ \A a \in Addrs : hits'[a] = st.hits[a]
                        /\ st.unknownSessions = 0
TInit == Init /\ l = 1 /\ hasSt = FALSE /\ TLCSet(7, 0)
TReset == /\ l <= Len(TraceLog) /\ E.ev = "Reset" /\ l' = l + 1 /\ hasSt' = E.hasSt
          /\ E.ttl = TTL /\ E.window = Window /\ E.limit = Limit
          /\ enabled' = E.enabled /\ now' = 0 /\ ticks' = [d \in DOMAIN TickBudget |-> 0]
          /\ sessions' = [t \in TokenSet |-> -1] /\ ntok' = 0 /\ hits' = [a \in Addrs |-> <<>>]
          /\ issuedAt' = [t \in TokenSet |-> -1] /\ loggedOut' = {} /\ loggedOutJars' = {} /\ admitted' = [a \in Addrs |-> <<>>]
          /\ last' = [op |-> "init"] /\ hist' = <<>>
TLogin == /\ Cur("Login") /\ Login(E.addr, E.good, 1) /\ now = E.now
          /\ last'.adm = (IF E.adm THEN 1 ELSE 0) /\ last'.token = E.token
          /\ E.status = (IF ~enabled THEN 503 ELSE IF ~E.adm THEN 429 ELSE IF E.good THEN 200 ELSE 401)
          /\ StMatch(E.st)
TLogout == Cur("Logout") /\ Logout(E.cookies) /\ now = E.now /\ E.status = 200 /\ StMatch(E.st)
TRequest == /\ Cur("Request") /\ Request(E.cookies) /\ now = E.now
            /\ last'.served = E.served /\ last'.served = E.servedAll /\ StMatch(E.st)
TPoll == /\ Cur("Poll") /\ Poll(E.cookies) /\ now = E.now /\ E.status = 200
         /\ last'.authenticated = E.authenticated /\ StMatch(E.st)
TTick == Cur("Tick") /\ Tick(E.d) /\ now' = E.now /\ StMatch(E.st)
Consumed == TLCSet(7, IF TLCGet(7) < l THEN l ELSE TLCGet(7))
TNext == (TReset \/ TLogin \/ TLogout \/ TRequest \/ TPoll \/ TTick) /\ Consumed
TSpec == TInit /\ [][TNext]_tvars
Reached == PrintT(<<"CONF", ToJson([reached |-> TLCGet(7), total |-> Len(TraceLog)])>>)
====
