package console

// Verification harness (injected with `go test -overlay`; not part of the repository).
// Replays TLC-generated login / logout / request / tick sequences against the real console
// mux (NewMux) with httptest recorders inside a testing/synctest bubble (virtual time) and
// records one ndjson line per HTTP exchange (requests: one line per cookie, all protected
// routes aggregated).

import (
	"bufio"
	"context"
	"encoding/json"
	"net/http"
	"net/http/httptest"
	"os"
	"strconv"
	"strings"
	"testing"
	"testing/synctest"
	"time"
	"unsafe"
)

type vcaStep struct {
	A       string `json:"a"`
	Enabled bool   `json:"enabled"`
	Addr    string `json:"addr"`
	Good    bool   `json:"good"`
	N       int    `json:"n"`
	Cookies []string `json:"cookies"`
	D       int    `json:"d"`
}

type vcaSched struct {
	Steps []vcaStep `json:"steps"`
}

type vcaRoute struct {
	method, path string
	stream       bool
}

// every route NewMux wraps in auth.requireAuth (server.go), with the method its handler accepts
var vcaRoutes = []vcaRoute{
	{"GET", "/ui/api/status", false},
	{"POST", "/ui/api/status/topics", false},
	{"DELETE", "/ui/api/status/topics/orders", false},
	{"GET", "/ui/api/metrics", true},
	{"GET", "/ui/api/lfs/status", false},
	{"GET", "/ui/api/lfs/objects", false},
	{"GET", "/ui/api/lfs/topics", false},
	{"GET", "/ui/api/lfs/topics/orders", false},
	{"GET", "/ui/api/lfs/events", true},
	{"GET", "/ui/api/lfs/orphans", false},
	{"GET", "/ui/api/lfs/s3/browse", false},
	{"POST", "/ui/api/lfs/s3/presign", false},
}

var vcaAddrIP = map[string]string{"a1": "10.0.0.1", "a2": "10.0.0.2"}
var vcaTokenIDs = []string{"t1", "t2", "t3", "t4", "t5", "t6", "t7", "t8", "t9", "t10", "t11", "t12"}

// vcaExtractAuth recovers the *authManager NewMux created (it is only reachable through the method
// values registered on the mux).  Used for the conformance projection only; returns nil when the
// handler is not the expected method value, in which case the state projection is omitted.
func vcaExtractAuth(h http.Handler) *authManager {
	sm, ok := h.(*http.ServeMux)
	if !ok {
		return nil
	}
	hh, _ := sm.Handler(httptest.NewRequest("GET", "/ui/api/auth/config", nil))
	hf, ok := hh.(http.HandlerFunc)
	if !ok {
		return nil
	}
	ref := http.HandlerFunc((&authManager{}).handleConfig)
	type closure struct {
		fn   uintptr
		recv *authManager
	}
	pc := *(**closure)(unsafe.Pointer(&hf))
	pr := *(**closure)(unsafe.Pointer(&ref))
	if pc == nil || pr == nil || pc.fn != pr.fn {
		return nil
	}
	return pc.recv
}

// rejected by the auth layer: 401/403, or the "auth disabled" 503 of requireAuth
func vcaServed(rec *httptest.ResponseRecorder) bool {
	if rec.Code == http.StatusUnauthorized || rec.Code == http.StatusForbidden {
		return false
	}
	if rec.Code == http.StatusServiceUnavailable && strings.Contains(rec.Body.String(), "auth disabled") {
		return false
	}
	return true
}

func TestVerifConsoleAuthReplay(t *testing.T) {
	in, outPath := os.Getenv("VERIF_SCHEDULES"), os.Getenv("VERIF_TRACE_OUT")
	if in == "" || outPath == "" {
		t.Skip("no schedules")
	}
	f, err := os.Open(in)
	if err != nil {
		t.Fatal(err)
	}
	defer f.Close()
	out, err := os.Create(outPath)
	if err != nil {
		t.Fatal(err)
	}
	defer out.Close()
	w := bufio.NewWriter(out)
	defer w.Flush()
	emit := func(m map[string]any) {
		b, _ := json.Marshal(m)
		w.Write(b)
		w.WriteByte('\n')
	}
	sc := bufio.NewScanner(f)
	sc.Buffer(make([]byte, 1<<20), 1<<26)
	n := 0
	for sc.Scan() {
		var s vcaSched
		if err := json.Unmarshal(sc.Bytes(), &s); err != nil {
			t.Fatal(err)
		}
		idx := n
		synctest.Test(t, func(t *testing.T) { vcaRun(t, idx, s, emit) })
		n++
	}
	t.Logf("replayed %d schedules", n)
}

func vcaRun(t *testing.T, idx int, s vcaSched, emit func(map[string]any)) {
	if len(s.Steps) == 0 || s.Steps[0].A != "Init" {
		t.Fatalf("schedule %d does not start with Init", idx)
	}
	enabled := s.Steps[0].Enabled
	cfg := AuthConfig{}
	if enabled {
		cfg = AuthConfig{Username: "admin", Password: "s3cret"}
	}
	mux, err := NewMux(ServerOptions{Auth: cfg, LFSHandlers: NewLFSHandlers(LFSConfig{}, nil)})
	if err != nil {
		t.Fatal(err)
	}
	start := time.Now()
	nowS := func() int { return int(time.Since(start) / time.Second) }
	auth := vcaExtractAuth(mux)
	ttl, window, limit := 12*time.Hour, time.Minute, 20 // the constants of newAuthManager
	if auth != nil {
		ttl = auth.ttl
		if auth.limiter != nil {
			window, limit = auth.limiter.window, auth.limiter.limit
		}
	}
	tokenOf := map[string]string{} // id -> real token
	idOf := map[string]string{}    // real token -> id
	project := func() map[string]any {
		if auth == nil {
			return map[string]any{}
		}
		sess := map[string]int{}
		for _, id := range vcaTokenIDs {
			sess[id] = -1
		}
		extra := 0
		auth.mu.Lock()
		for tok, exp := range auth.sessions {
			if id, ok := idOf[tok]; ok {
				sess[id] = int(exp.Sub(start) / time.Second)
			} else {
				extra++
			}
		}
		auth.mu.Unlock()
		hits := map[string][]int{}
		for a := range vcaAddrIP {
			hits[a] = []int{}
		}
		if auth.limiter != nil {
			auth.limiter.mu.Lock()
			for a, ip := range vcaAddrIP {
				for _, ts := range auth.limiter.hits[ip] {
					hits[a] = append(hits[a], int(ts.Sub(start)/time.Second))
				}
			}
			auth.limiter.mu.Unlock()
		}
		return map[string]any{"sessions": sess, "hits": hits, "unknownSessions": extra}
	}
	emit(map[string]any{"ev": "Reset", "sched": idx, "enabled": enabled, "ttl": int(ttl / time.Second), "window": int(window / time.Second),
		"limit": limit, "routes": len(vcaRoutes), "hasSt": auth != nil})
	port := 40000
	do := func(method, path, addr string, cookies []string, body string, stream bool) *httptest.ResponseRecorder {
		var req *http.Request
		if body != "" {
			req = httptest.NewRequest(method, path, strings.NewReader(body))
		} else {
			req = httptest.NewRequest(method, path, nil)
		}
		port++
		req.RemoteAddr = vcaAddrIP[addr] + ":" + strconv.Itoa(port)
		// the session cookies in the order given (a client may send several cookies of the same name)
		for _, cookie := range cookies {
			switch cookie {
			case "forged":
				req.AddCookie(&http.Cookie{Name: sessionCookieName, Value: "Zm9yZ2VkLXRva2VuLW5ldmVyLWlzc3VlZC1ieS1hbnktbG9naW4"})
			default:
				req.AddCookie(&http.Cookie{Name: sessionCookieName, Value: tokenOf[cookie]})
			}
		}
		if stream {
			// streaming endpoints run until the client goes away: the client is already gone
			ctx, cancel := context.WithCancel(req.Context())
			cancel()
			req = req.WithContext(ctx)
		}
		rec := httptest.NewRecorder()
		mux.ServeHTTP(rec, req)
		return rec
	}
	known := func(cookies []string) {
		for _, c := range cookies {
			if c != "forged" && tokenOf[c] == "" {
				t.Fatalf("schedule %d presents token %s before it was issued", idx, c)
			}
		}
	}
	request := func(cookies []string) {
		if cookies == nil {
			cookies = []string{}
		}
		served := []string{}
		codes := []int{}
		for _, r := range vcaRoutes {
			rec := do(r.method, r.path, "a1", cookies, "", r.stream)
			codes = append(codes, rec.Code)
			if vcaServed(rec) {
				served = append(served, r.method+" "+r.path)
			}
		}
		emit(map[string]any{"ev": "Request", "cookies": cookies, "served": len(served) > 0, "servedAll": len(served) == len(vcaRoutes),
			"servedRoutes": served, "codes": codes, "now": nowS(), "st": project()})
	}
	for _, st := range s.Steps[1:] {
		switch st.A {
		case "Login":
			body := `{"username":"admin","password":"wrong"}`
			if st.Good {
				body = `{"username":"admin","password":"s3cret"}`
			}
			for i := 0; i < st.N; i++ {
				rec := do("POST", "/ui/api/auth/login", st.Addr, nil, body, false)
				token := "none"
				for _, c := range rec.Result().Cookies() {
					if c.Name == sessionCookieName && c.Value != "" {
						id, ok := idOf[c.Value]
						if !ok {
							if len(tokenOf) >= len(vcaTokenIDs) {
								t.Fatalf("schedule %d issues more than %d tokens", idx, len(vcaTokenIDs))
							}
							id = vcaTokenIDs[len(tokenOf)]
							idOf[c.Value], tokenOf[id] = id, c.Value
						}
						token = id
					}
				}
				adm := rec.Code == http.StatusOK || rec.Code == http.StatusUnauthorized || rec.Code == http.StatusBadRequest
				emit(map[string]any{"ev": "Login", "addr": st.Addr, "good": st.Good, "status": rec.Code, "adm": adm, "token": token, "now": nowS(), "st": project()})
			}
		case "Logout":
			known(st.Cookies)
			cookies := st.Cookies
			if cookies == nil {
				cookies = []string{}
			}
			rec := do("POST", "/ui/api/auth/logout", "a1", cookies, "", false)
			emit(map[string]any{"ev": "Logout", "cookies": cookies, "status": rec.Code, "now": nowS(), "st": project()})
		case "ProbeAll":
			// one Request per cookie list that can be presented now: none, forged, every issued token alone, with a forged
			// same-named cookie before / after it, and pairs of issued tokens
			probe := [][]string{{}, {"forged"}}
			issued := []string{}
			for _, id := range vcaTokenIDs {
				if tokenOf[id] != "" {
					issued = append(issued, id)
				}
			}
			for _, id := range issued {
				probe = append(probe, []string{id}, []string{"forged", id}, []string{id, "forged"})
			}
			if len(issued) <= 3 {
				for _, a := range issued {
					for _, b := range issued {
						if a != b {
							probe = append(probe, []string{a, b})
						}
					}
				}
			}
			for _, c := range probe {
				request(c)
			}
		case "Request":
			known(st.Cookies)
			request(st.Cookies)
		case "Poll":
			// the unprotected session-status endpoint the UI polls; it must not change what protected endpoints answer
			known(st.Cookies)
			cookies := st.Cookies
			if cookies == nil {
				cookies = []string{}
			}
			rec := do("GET", "/ui/api/auth/session", "a1", cookies, "", false)
			var resp struct {
				Authenticated bool `json:"authenticated"`
			}
			_ = json.Unmarshal(rec.Body.Bytes(), &resp)
			emit(map[string]any{"ev": "Poll", "cookies": cookies, "status": rec.Code, "authenticated": resp.Authenticated, "now": nowS(), "st": project()})
		case "Tick":
			time.Sleep(time.Duration(st.D) * time.Second)
			emit(map[string]any{"ev": "Tick", "d": st.D, "now": nowS(), "st": project()})
		default:
			t.Fatalf("unknown step %q", st.A)
		}
	}
}
