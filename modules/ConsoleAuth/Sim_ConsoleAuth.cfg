CONSTANTS
 Addrs = {"a1","a2"}
 Tokens <- Tok3
 Limit = 20
 Window = 60
 TTL = 43200
 TickBudget <- TB_sim
 Bursts = {9,10,19,21}
 MaxOps = 24
 DevNoExpiry = FALSE
 DevLogoutKeeps = FALSE
 DevLimiterPerWindowStart = FALSE
 PollOnlyStale = FALSE
 DevSessionPollRevives = FALSE
 DevAnyCookieValid = FALSE
 PairJars = TRUE
INIT Init
NEXT Next
INVARIANTS EmitSched C38_SessionRequired C38_RateLimit

CHECK_DEADLOCK FALSE
