"""ConsoleAuth.tla — C38 (internal/console/auth.go, server.go)."""
import copy, json, os, re
from concurrent.futures import ThreadPoolExecutor
from lib import tlc as T, layers, gorun
from lib.common import Broken, Violation, verdict, save_replay

PROPS = {
    "C38": {
        "text": "ConsoleAuth.tla models the console's authManager (session map token -> expiry, login, logout, requireAuth around the protected routes) and its per-address sliding-window login limiter on an integer clock; TLC checks the two C38 clauses exhaustively, both for the abstract scaled constants of the design (ttl 3, window 2, limit 2) and for the code's own constants (ttl 12 h, window 60 s, limit 20, tick sizes 30 s / 4 h, login bursts). TLC-generated histories (simulation + counterexamples of five named wrong designs (six searches)) are replayed against the real mux built by NewMux with httptest recorders in a testing/synctest bubble (virtual time), every protected route being requested for every cookie list (none, forged, an issued token, two same-named session cookies), interleaved with polls of the unprotected GET /ui/api/auth/session; TLC validates the recorded exchanges: the C38 predicates over the observed histories (layer O) and step-by-step conformance incl. the session map and limiter hit lists (layer C).",
        "note": "Trusted: TLC, testing/synctest virtual time, the classification of a response as rejected (401/403 or requireAuth's 503 'auth disabled'), the hand-written list of the 12 routes NewMux wraps in requireAuth. The property is read literally: an endpoint answers only live-session requests (served => live) and at most `limit` attempts per address pass the limiter in any half-open window (t-W, t]; the converse (a live session is served) is checked by the conformance layer only. The limiter/TTL constants cannot be configured through NewMux, so the real constants are used and the time axis is sampled with 30 s and 4 h ticks.",
        "technique": "TLA+ model (ConsoleAuth.tla) + TLC exhaustive check + replay of TLC behaviours into the real console mux under virtual time + TLC trace validation (observation and conformance layers)",
    }
}
DEVIATIONS = {"NoExpiry": "C38_SessionRequired", "LogoutKeeps": "C38_SessionRequired", "LimiterPerWindowStart": "C38_RateLimit", "AnyCookieValid": "C38_SessionRequired", "SessionPollRevives": "C38_SessionRequired", "SessionPollRevivesStale": "C38_SessionRequired"}
SIM_LEN = 24  # MaxOps of Sim_ConsoleAuth.cfg
TRACE_CFG = """CONSTANTS
 Addrs = {"a1","a2"}
 Tokens <- Tok12
 Limit = %(limit)d
 Window = %(window)d
 TTL = %(ttl)d
 TickBudget <- TB_trace
 Bursts = {}
 MaxOps = 1000000000
 DevNoExpiry = FALSE
 DevLogoutKeeps = FALSE
 DevLimiterPerWindowStart = FALSE
 PollOnlyStale = FALSE
 DevSessionPollRevives = FALSE
 DevAnyCookieValid = FALSE
 PairJars = TRUE
INIT TInit
NEXT TNext
POSTCONDITION Reached
CHECK_DEADLOCK FALSE
"""


def harness(ctx, scheds, tag):
    sp = os.path.join(ctx.scratch, "sched-%s.ndjson" % tag)
    tp = os.path.join(ctx.scratch, "trace-%s.ndjson" % tag)
    gorun.write_ndjson(sp, scheds)
    rc, out = gorun.go_test(ctx, ".", "./internal/console/", {"internal/console/zz_verif_consoleauth_test.go": os.path.join(DIR, "harness", "consoleauth_verif_test.go")},
                            "^TestVerifConsoleAuthReplay$", env={"VERIF_SCHEDULES": sp, "VERIF_TRACE_OUT": tp})
    if rc != 0 or "replayed %d schedules" % len(scheds) not in out:
        raise Broken("console auth harness failed:\n" + out[-3000:])
    return gorun.read_ndjson(tp)


def split(rows):
    runs, cur = [], None
    for r in rows:
        if r["ev"] == "Reset":
            cur = []
            runs.append(cur)
        cur.append(r)
    return runs


def tok_state(run, upto, c):
    ev = run[upto]
    ttl = run[0]["ttl"]
    issued = [r for r in run[:upto] if r["ev"] == "Login" and r.get("token") == c]
    if not issued or not issued[0]["good"] or issued[0]["status"] != 200:
        return "token_not_from_valid_login"
    if any(r["ev"] == "Logout" and r.get("cookies") == [c] for r in run[:upto]):
        return "logged_out"
    if ev["now"] > issued[0]["now"] + ttl:
        return "expired"
    return "live"


def classify(run, upto):
    """Class of the cookie list of request line `upto` (index in run), from the recorded history (diagnostics / signature only)."""
    ev = run[upto]
    if ev["ev"] != "Request":
        return ev["ev"].lower()
    cs = ev.get("cookies") or []
    if not cs:
        return "none"
    if cs == ["forged"]:
        return "forged"
    if len(cs) == 1:
        return tok_state(run, upto, cs[0])
    if any(r["ev"] == "Logout" and r.get("cookies") == cs for r in run[:upto]):
        return "multi_cookie_list_logged_out"
    if any(c != "forged" and tok_state(run, upto, c) == "live" for c in cs):
        return "multi_with_live_token"
    return "multi_without_live_token"


def check(ctx, prop):
    quick = ctx.quick()
    d = T.stage(ctx, DIR, "mc")
    models = ["MC_ConsoleAuth_quick.cfg"] if quick else ["MC_ConsoleAuth_scaled.cfg", "MC_ConsoleAuth_thorough.cfg"]
    mcs = []
    for cfg in models:
        mc = T.model_check(ctx, d, "MC_ConsoleAuth.tla", cfg, coverage=(not quick and cfg == models[-1]), timeout=2400, workers=8)
        ctx.log("model %s: %d distinct states, depth %d" % (cfg, mc.distinct, mc.depth))
        mcs.append((cfg, mc))

    def dev_run(dev):
        return T.counterexample_hist(ctx, T.stage(ctx, DIR, "dev-" + dev), "MC_ConsoleAuth.tla", "Dev_ConsoleAuth_%s.cfg" % dev, timeout=600, workers=2)
    with ThreadPoolExecutor(max_workers=3) as ex:
        dev_res = dict(zip(sorted(DEVIATIONS), ex.map(dev_run, sorted(DEVIATIONS))))
    scheds, labels = [], []
    for dev, inv in sorted(DEVIATIONS.items()):
        h, r = dev_res[dev]
        if h is None or inv not in r.violated:
            raise Broken("deviation %s no longer violates %s in the model (vacuous deviation)" % (dev, inv))
        scheds.append({"steps": h + [{"a": "ProbeAll"}]}); labels.append("dev:" + dev)
    n = 120 if quick else 400
    hs, _ = T.simulate_hists(ctx, d, "MC_ConsoleAuth.tla", "Sim_ConsoleAuth.cfg", num=n, depth=26, seed=ctx.seed)
    # TLC evaluates the printing invariant on every successor it generates before choosing one: keep the completed
    # behaviours only (no action is ever disabled, so every behaviour reaches the MaxOps bound of Sim_ConsoleAuth.cfg)
    hs = [h for h in hs if len(h) >= SIM_LEN]
    if len(hs) < n // 2:
        raise Broken("simulation produced only %d complete behaviours" % len(hs))
    for h in hs:
        scheds.append({"steps": h + [{"a": "ProbeAll"}]}); labels.append("sim")
    ctx.log("%d schedules (%d deviation counterexamples, %d simulated)" % (len(scheds), len(DEVIATIONS), len(hs)))
    rows = harness(ctx, scheds, "main")
    runs = split(rows)
    if len(runs) != len(scheds):
        raise Broken("harness recorded %d runs for %d schedules" % (len(runs), len(scheds)))
    cfgs = {(r["ttl"], r["window"], r["limit"]) for r in rows if r["ev"] == "Reset"}
    consumed, viol, _ = layers.observe(ctx, DIR, "Obs_ConsoleAuth.tla", "Obs_ConsoleAuth.cfg", rows)
    starts = [i for i, r in enumerate(rows) if r["ev"] == "Reset"]
    violations, first = [], set()
    for line, inv in sorted(viol):
        ev = rows[line - 1]
        idx = sum(1 for s in starts if s < line) - 1
        why = classify(runs[idx], line - 1 - starts[idx])
        sig = "%s@%s.%s" % (inv, ev["ev"], why)
        if (idx, sig) in first:
            continue
        first.add((idx, sig))
        path = save_replay(prop, "sched-%s.json" % re.sub(r"\W", "_", sig), {"schedule": scheds[idx], "label": labels[idx], "trace": runs[idx], "line": ev})
        if inv == "C38_SessionRequired":
            what = "protected routes %s answered a request at t=%ds whose session cookies %s are not a live session (%s)" % (ev.get("servedRoutes"), ev["now"], ev.get("cookies"), why)
        else:
            what = "address %s got more than %d login attempts past the limiter within one %d s window ending at t=%ds" % (ev.get("addr"), runs[idx][0]["limit"], runs[idx][0]["window"], ev["now"])
        violations.append(Violation(prop, sig, "%s false on the real console mux: %s [schedule %s, replay %s]" % (inv, what, labels[idx], path), {"schedule": scheds[idx], "event": ev}))
    if len(cfgs) != 1:
        raise Broken("traces disagree on the configured constants: %s" % sorted(cfgs))
    ttl, window, limit = next(iter(cfgs))
    cfg_text = TRACE_CFG % {"ttl": ttl, "window": window, "limit": limit}
    reached, total, _ = layers.conform(ctx, DIR, "Trace_ConsoleAuth.tla", "Trace_ConsoleAuth.cfg", rows, cfg_text=cfg_text)
    conf = {"reached": reached, "total": total, "state_projection": bool(rows[0].get("hasSt")), "constants": {"ttl_s": ttl, "window_s": window, "limit": limit},
            "first_rejection": None if reached == total else (rows[reached] if reached < len(rows) else None)}
    drift = reached != total or (ttl, window, limit) != (43200, 60, 20)
    try:
        st = self_test(ctx, runs, cfg_text)
    except Broken as e:
        if not violations:
            raise
        st = {"skipped": "violations reported; self-test not applicable to these traces: %s" % e}
    level = "model_checking"
    if drift and not violations:
        level = "exploration"
        ctx.log("DRIFT: conformance layer rejected a trace (or the constants differ from the modelled ones) although C38 held: " + json.dumps(conf)[:1500])
    reqs = [r for r in rows if r["ev"] == "Request"]
    logins = [r for r in rows if r["ev"] == "Login"]
    kinds = {}
    for run in runs:
        for i, r in enumerate(run):
            if r["ev"] == "Request":
                k = classify(run, i)
                kinds[k] = kinds.get(k, 0) + 1
    nontrivial = sum(1 for run in runs if any(r["ev"] == "Request" and r["served"] for r in run)
                     and any(r["ev"] == "Request" and len(r["cookies"]) == 1 and r["cookies"][0].startswith("t") and not r["served"] for r in run))
    mc = mcs[-1][1]
    cov = {
        "states": sum(m.distinct for _, m in mcs), "transitions": sum(m.generated for _, m in mcs), "depth": max(m.depth for _, m in mcs), "exhaustive": True,
        "model_configs": {c: {"states": m.distinct, "transitions": m.generated, "depth": m.depth} for c, m in mcs},
        "traces_validated_against_impl": len(runs), "trace_events": len(rows),
        "evaluations": len(reqs) + len(logins), "protected_routes_per_request": rows[0]["routes"], "endpoint_calls": len(reqs) * rows[0]["routes"],
        "requests_by_cookie_class": kinds, "login_attempts": len(logins), "login_attempts_rate_limited": sum(1 for r in logins if r["status"] == 429),
        "distinct_nontrivial": nontrivial,
        "rule": "schedules = TLC counterexamples of the named deviations + TLC -simulate behaviours (seeded), each followed by one request per presentable cookie; evaluations = request lines (each = all protected routes) + login attempts checked by layer O; non-trivial = a schedule in which some request with an issued token was answered and some request with an issued token (expired / logged out) was rejected",
        "deviation_schedules": sorted(DEVIATIONS), "conformance": ("drift" if drift else "accepted"), "conformance_detail": conf,
        "binding_self_test": st,
        "samples": [scheds[0], scheds[min(len(scheds) - 1, len(DEVIATIONS) + 1)], [{k: v for k, v in r.items() if k != "servedRoutes"} for r in runs[0][:5]]],
    }
    if not quick:
        cov["action_coverage"] = {k: v[1] for k, v in mc.action_coverage().items()}
    if not violations and not drift and (not kinds.get("live") or not kinds.get("expired") or not kinds.get("logged_out") or not kinds.get("multi_cookie_list_logged_out") or not kinds.get("multi_with_live_token") or not cov["login_attempts_rate_limited"]):
        raise Broken("vacuous run: request classes %s, rate-limited attempts %d" % (kinds, cov["login_attempts_rate_limited"]))
    return verdict(ctx, violations, level, cov, [
        "a response counts as rejected iff its status is 401/403 or it is requireAuth's 503 'ui auth disabled'; anything else means the wrapped handler answered",
        "the protected routes are the 12 routes server.go wraps in requireAuth (LFS handlers enabled); streaming endpoints are called with an already-cancelled request context",
        "a logout presenting exactly one session cookie logs that token out; when a client presents several same-named session cookies it is unspecified which one is 'the' session, so only this is demanded: a request carrying the identical cookie list is not answered after that list was presented to a logout (and a request is answered only if at least one carried token is live)",
        "window convention (DESIGN §4 C38): half-open (t-W, t]; a login attempt counts as admitted iff it reached the credential check (status 200/400/401)",
        "time is virtual (testing/synctest); the time axis is sampled with ticks of 30 s and 4 h, which hit the window and TTL boundaries exactly",
        "every handler is a single pass through independent critical sections, so sequential histories cover all interleavings of complete exchanges",
        "session map / limiter hits for layer C are read in-package from the authManager recovered from the mux's registered method value",
    ])


def self_test(ctx, runs, cfg_text):
    run = next((r for r in runs if any(x["ev"] == "Request" and not x["served"] and x["cookies"] == ["forged"] for x in r)), None)
    if run is None:
        raise Broken("binding self-test: no rejected forged-cookie request in any trace")
    bad = copy.deepcopy(run)
    tgt = [r for r in bad if r["ev"] == "Request" and not r["served"] and r["cookies"] == ["forged"]][-1]
    tgt["served"] = True
    _, viol, _ = layers.observe(ctx, DIR, "Obs_ConsoleAuth.tla", "Obs_ConsoleAuth.cfg", bad, name="selfO")
    if not any(v[1] == "C38_SessionRequired" for v in viol):
        raise Broken("binding self-test: observation layer did not flag a forged cookie marked as served")
    bad = copy.deepcopy(run)
    tgt = bad[-1]
    if not bad[0].get("hasSt"):
        tgt["servedAll"] = not tgt.get("servedAll", False)
    else:
        tgt["st"]["hits"]["a2"] = tgt["st"]["hits"]["a2"] + [tgt["now"]]
    reached, total, _ = layers.conform(ctx, DIR, "Trace_ConsoleAuth.tla", "Trace_ConsoleAuth.cfg", bad, name="selfC", cfg_text=cfg_text)
    if reached == total:
        raise Broken("binding self-test: conformance layer accepted a corrupted state field")
    return {"observation_layer_flags_corrupted_field": True, "conformance_layer_rejects_corrupted_state": True}


def replay(ctx, prop, path):
    obj = json.load(open(path))
    sched = obj.get("schedule") or obj.get("detail", {}).get("schedule")
    rows = harness(ctx, [sched], "replay")
    _, viol, _ = layers.observe(ctx, DIR, "Obs_ConsoleAuth.tla", "Obs_ConsoleAuth.cfg", rows)
    for r in rows:
        print(json.dumps(r, sort_keys=True))
    for line, inv in viol:
        print("VIOLATION property=%s replay=%s" % (prop, path))
        print("  %s false at line %d" % (inv, line))
    return 1 if viol else 0
