---- MODULE ConsoleAuth ----
(* internal/console/auth.go + server.go: authManager (sessions map token -> expiry, guarded by a.mu), *)
(* loginRateLimiter (hits per client address, sliding window), requireAuth around every protected     *)
(* route.  One action per HTTP exchange (each handler is one pass through at most two critical        *)
(* sections that do not interact: limiter.mu then a.mu), plus Tick (virtual time).                    *)
(* Time is in seconds; the code's constants are ttl = 12 h, window = 1 min, limit = 20 and cannot be  *)
(* configured through NewMux, so the "real" configurations use them unscaled with two tick sizes      *)
(* (30 s, 4 h) and login bursts; the "scaled" configuration (ttl 3, window 2, limit 2, tick 1) is the *)
(* abstract bounded model of DESIGN §4 C38.                                                           *)
EXTENDS Integers, Sequences, FiniteSets, TLC, Json
CONSTANTS Addrs, Tokens,        \* client addresses; sequence of token ids in the order they are issued
          Limit, Window, TTL,
          TickBudget,           \* function tick size -> how many ticks of that size may be taken
          Bursts,               \* sizes (> 1) of bursts of bad-credential login attempts made at one instant
          MaxOps,
          DevNoExpiry,              \* deviation: hasValidSession ignores the expiry
          DevLogoutKeeps,           \* deviation: logout clears the cookie but keeps the server-side session
          DevLimiterPerWindowStart  \* deviation: fixed window counted from its first hit, reset as a whole
VARIABLES enabled, now, ticks, sessions, ntok, hits,   \* implementation state
          issuedAt, loggedOut, admitted,               \* history (what the property talks about)
          last, hist
vars == <<enabled, now, ticks, sessions, ntok, hits, issuedAt, loggedOut, admitted, last, hist>>

TokenSet == {Tokens[i] : i \in 1..Len(Tokens)}
Cookies == {"none", "forged"} \cup {Tokens[i] : i \in 1..ntok}
Min(a, b) == IF a < b THEN a ELSE b
Rep(n, x) == [i \in 1..n |-> x]

Init == /\ enabled \in BOOLEAN /\ now = 0 /\ ticks = [d \in DOMAIN TickBudget |-> 0]
        /\ sessions = [t \in TokenSet |-> -1] /\ ntok = 0 /\ hits = [a \in Addrs |-> <<>>]
        /\ issuedAt = [t \in TokenSet |-> -1] /\ loggedOut = {} /\ admitted = [a \in Addrs |-> <<>>]
        /\ last = [op |-> "init"] /\ hist = <<[a |-> "Init", enabled |-> enabled]>>

Step(h) == Len(hist) < MaxOps /\ hist' = Append(hist, h)

\* loginRateLimiter.Allow: keep hits with ts.After(now - window), then admit while fewer than limit remain
Fresh(s) == SelectSeq(s, LAMBDA ts : ts > now - Window)
Pruned(s) == IF DevLimiterPerWindowStart
             THEN IF s # <<>> /\ now - s[1] >= Window THEN <<>> ELSE s
             ELSE Fresh(s)

\* n login attempts of address a at this instant; good = valid credentials (bursts are bad-credential attempts)
Login(a, good, n) ==
  /\ n = 1 \/ ~good
  /\ good => ntok < Len(Tokens)
  /\ Step([a |-> "Login", addr |-> a, good |-> good, n |-> n])
  /\ IF ~enabled
     THEN /\ last' = [op |-> "Login", adm |-> 0, token |-> "none"]
          /\ UNCHANGED <<sessions, ntok, hits, issuedAt, admitted>>
     ELSE LET p == Pruned(hits[a])
              k == Min(n, IF Len(p) >= Limit THEN 0 ELSE Limit - Len(p))
              issue == good /\ k = 1
              tok == Tokens[ntok + 1] IN
          /\ hits' = [hits EXCEPT ![a] = p \o Rep(k, now)]
          /\ admitted' = [admitted EXCEPT ![a] = Fresh(@) \o Rep(k, now)]
          /\ IF issue THEN /\ sessions' = [sessions EXCEPT ![tok] = now + TTL] /\ ntok' = ntok + 1
                           /\ issuedAt' = [issuedAt EXCEPT ![tok] = now]
                      ELSE UNCHANGED <<sessions, ntok, issuedAt>>
          /\ last' = [op |-> "Login", adm |-> k, token |-> IF issue THEN tok ELSE "none"]
  /\ UNCHANGED <<enabled, now, ticks, loggedOut>>

Logout(c) ==
  /\ Step([a |-> "Logout", cookie |-> c])
  /\ IF c \in TokenSet
     THEN /\ sessions' = [sessions EXCEPT ![c] = IF DevLogoutKeeps THEN @ ELSE -1]
          /\ loggedOut' = loggedOut \cup {c}
     ELSE UNCHANGED <<sessions, loggedOut>>
  /\ last' = [op |-> "Logout"]
  /\ UNCHANGED <<enabled, now, ticks, ntok, hits, issuedAt, admitted>>

\* requireAuth / hasValidSession
Valid(c) == /\ enabled /\ c \in TokenSet /\ sessions[c] >= 0
            /\ DevNoExpiry \/ now <= sessions[c]           \* !time.Now().After(expiry)
Request(c) ==
  /\ Step([a |-> "Request", cookie |-> c])
  /\ last' = [op |-> "Request", cookie |-> c, served |-> Valid(c)]
  /\ sessions' = IF enabled /\ c \in TokenSet /\ sessions[c] >= 0 /\ ~Valid(c) THEN [sessions EXCEPT ![c] = -1] ELSE sessions  \* expired entry is dropped
  /\ UNCHANGED <<enabled, now, ticks, ntok, hits, issuedAt, loggedOut, admitted>>

Tick(d) ==
  /\ ticks[d] < TickBudget[d]
  /\ Step([a |-> "Tick", d |-> d])
  /\ now' = now + d /\ ticks' = [ticks EXCEPT ![d] = @ + 1]
  /\ last' = [op |-> "Tick"]
  /\ UNCHANGED <<enabled, sessions, ntok, hits, issuedAt, loggedOut, admitted>>

Next == \/ \E a \in Addrs : \E good \in BOOLEAN : Login(a, good, 1)
        \/ \E a \in Addrs : \E n \in Bursts : Login(a, FALSE, n)
        \/ \E c \in Cookies : Logout(c) \/ Request(c)
        \/ \E d \in DOMAIN TickBudget : Tick(d)
Spec == Init /\ [][Next]_vars

\* C38 as state invariants: whatever cookie is presented now, the answer of a protected endpoint obeys the predicate
P(c) == INSTANCE ConsoleAuthProps WITH req <- [cookie |-> c, served |-> Valid(c)], now <- now, issuedAt <- issuedAt,
          loggedOut <- loggedOut, ttl <- TTL, admitted <- admitted, window <- Window, limit <- Limit
C38_SessionRequired == \A c \in Cookies : P(c)!C38_SessionRequired
C38_RateLimit == P("none")!C38_RateLimit
\* conformance-level facts (not part of the property): the converse direction and bookkeeping
LiveIsServed == enabled => \A c \in Cookies : P(c)!Live(c) => Valid(c)
HitsBounded == \A a \in Addrs : Len(hits[a]) <= Limit

\* last is pure output, hist pure history: neither is read by any action or invariant
View == <<enabled, now, ticks, sessions, ntok, hits, issuedAt, loggedOut, admitted>>
EmitSched == PrintT(<<"SCHED", ToJson(hist)>>)
====
