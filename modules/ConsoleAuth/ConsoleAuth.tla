---- MODULE ConsoleAuth ----
(* internal/console/auth.go + server.go: authManager (sessions map token -> expiry, guarded by a.mu), *)
(* loginRateLimiter (hits per client address, sliding window), requireAuth around every protected     *)
(* route.  One action per HTTP exchange (each handler is one pass through at most two critical        *)
(* sections that do not interact: limiter.mu then a.mu), plus Tick (virtual time).                    *)
(* Time is in seconds; the code's constants are ttl = 12 h, window = 1 min, limit = 20 and cannot be  *)
(* configured through NewMux, so the "real" configurations use them unscaled with two tick sizes      *)
(* (30 s, 4 h) and login bursts; the "scaled" configuration (ttl 3, window 2, limit 2, tick 1) is the *)
(* abstract bounded model of DESIGN §4 C38.                                                           *)
EXTENDS Integers, Sequences, FiniteSets, TLC, Json
CONSTANTS Addrs, Tokens,        \* client addresses; sequence of token ids in the order they are issued
          Limit, Window, TTL,
          TickBudget,           \* function tick size -> how many ticks of that size may be taken
          Bursts,               \* sizes (> 1) of bursts of bad-credential login attempts made at one instant
          MaxOps,
          DevNoExpiry,              \* deviation: hasValidSession ignores the expiry
          DevLogoutKeeps,           \* deviation: logout clears the cookie but keeps the server-side session
          DevLimiterPerWindowStart, \* deviation: fixed window counted from its first hit, reset as a whole
          PollOnlyStale,            \* TRUE restricts Poll to cookies whose session entry is present but expired (used by one deviation search)
          DevSessionPollRevives,    \* deviation: GET /auth/session is a sliding keep-alive: a token merely PRESENT in the map gets expiry = now + ttl
          DevAnyCookieValid,        \* deviation: hasValidSession accepts if ANY same-named session cookie is live, logout still drops the first only
          PairJars                  \* TRUE: requests/logouts carrying two different issued tokens are offered too
VARIABLES enabled, now, ticks, sessions, ntok, hits,   \* implementation state
          issuedAt, loggedOut, loggedOutJars, admitted,  \* history (what the property talks about)
          last, hist
vars == <<enabled, now, ticks, sessions, ntok, hits, issuedAt, loggedOut, loggedOutJars, admitted, last, hist>>

TokenSet == {Tokens[i] : i \in 1..Len(Tokens)}
Issued == {Tokens[i] : i \in 1..ntok}
\* cookie lists a client can present: none, a forged value, an issued token, or two same-named session cookies
Jars == {<<>>, <<"forged">>} \cup {<<t>> : t \in Issued}
        \cup {<<"forged", t>> : t \in Issued} \cup {<<t, "forged">> : t \in Issued}
        \cup (IF PairJars THEN {<<t, u>> : t, u \in Issued} \ {<<t, t>> : t \in Issued} ELSE {})
Eff(jar) == IF jar = <<>> THEN "none" ELSE jar[1]        \* sessionToken(): r.Cookie(name) is the first cookie of that name
Min(a, b) == IF a < b THEN a ELSE b
Rep(n, x) == [i \in 1..n |-> x]

Init == /\ enabled \in BOOLEAN /\ now = 0 /\ ticks = [d \in DOMAIN TickBudget |-> 0]
        /\ sessions = [t \in TokenSet |-> -1] /\ ntok = 0 /\ hits = [a \in Addrs |-> <<>>]
        /\ issuedAt = [t \in TokenSet |-> -1] /\ loggedOut = {} /\ loggedOutJars = {} /\ admitted = [a \in Addrs |-> <<>>]
        /\ last = [op |-> "init"] /\ hist = <<[a |-> "Init", enabled |-> enabled]>>

Step(h) == Len(hist) < MaxOps /\ hist' = Append(hist, h)

\* loginRateLimiter.Allow: keep hits with ts.After(now - window), then admit while fewer than limit remain
Fresh(s) == SelectSeq(s, LAMBDA ts : ts > now - Window)
Pruned(s) == IF DevLimiterPerWindowStart
             THEN IF s # <<>> /\ now - s[1] >= Window THEN <<>> ELSE s
             ELSE Fresh(s)

\* n login attempts of address a at this instant; good = valid credentials (bursts are bad-credential attempts)
Login(a, good, n) ==
  /\ n = 1 \/ ~good
  /\ good => ntok < Len(Tokens)
  /\ Step([a |-> "Login", addr |-> a, good |-> good, n |-> n])
  /\ IF ~enabled
     THEN /\ last' = [op |-> "Login", adm |-> 0, token |-> "none"]
          /\ UNCHANGED <<sessions, ntok, hits, issuedAt, admitted>>
     ELSE LET p == Pruned(hits[a])
              k == Min(n, IF Len(p) >= Limit THEN 0 ELSE Limit - Len(p))
              issue == good /\ k = 1
              tok == Tokens[ntok + 1] IN
          /\ hits' = [hits EXCEPT ![a] = p \o Rep(k, now)]
          /\ admitted' = [admitted EXCEPT ![a] = Fresh(@) \o Rep(k, now)]
          /\ IF issue THEN /\ sessions' = [sessions EXCEPT ![tok] = now + TTL] /\ ntok' = ntok + 1
                           /\ issuedAt' = [issuedAt EXCEPT ![tok] = now]
                      ELSE UNCHANGED <<sessions, ntok, issuedAt>>
          /\ last' = [op |-> "Login", adm |-> k, token |-> IF issue THEN tok ELSE "none"]
  /\ UNCHANGED <<enabled, now, ticks, loggedOut, loggedOutJars>>

\* a multi-cookie list stays interesting only while it carries a token that could still be live
Relevant(S, lo) == {j \in S : \E i \in 1..Len(j) : j[i] \in TokenSet /\ issuedAt[j[i]] >= 0 /\ j[i] \notin lo}
Logout(jar) ==
  LET c == Eff(jar)
      lo == IF Len(jar) = 1 /\ c \in TokenSet THEN loggedOut \cup {c} ELSE loggedOut IN
  /\ Step([a |-> "Logout", cookies |-> jar])
  /\ sessions' = IF c \in TokenSet /\ ~DevLogoutKeeps THEN [sessions EXCEPT ![c] = -1] ELSE sessions
  /\ loggedOut' = lo
  /\ loggedOutJars' = Relevant(IF Len(jar) >= 2 THEN loggedOutJars \cup {jar} ELSE loggedOutJars, lo)
  /\ last' = [op |-> "Logout"]
  /\ UNCHANGED <<enabled, now, ticks, ntok, hits, issuedAt, admitted>>

\* requireAuth / hasValidSession
TokValid(c) == /\ c \in TokenSet /\ sessions[c] >= 0
               /\ DevNoExpiry \/ now <= sessions[c]           \* !time.Now().After(expiry)
Valid(jar) == enabled /\ IF DevAnyCookieValid THEN \E i \in 1..Len(jar) : TokValid(jar[i]) ELSE TokValid(Eff(jar))
Request(jar) ==
  LET c == Eff(jar) IN
  /\ Step([a |-> "Request", cookies |-> jar])
  /\ last' = [op |-> "Request", cookies |-> jar, served |-> Valid(jar)]
  /\ sessions' = IF enabled /\ c \in TokenSet /\ sessions[c] >= 0 /\ ~TokValid(c) THEN [sessions EXCEPT ![c] = -1] ELSE sessions  \* expired entry is dropped
  /\ UNCHANGED <<enabled, now, ticks, ntok, hits, issuedAt, loggedOut, loggedOutJars, admitted>>

\* GET /ui/api/auth/session (unprotected; the UI polls it): handleSession reports hasValidSession, which also drops an
\* expired entry.  It must not change what protected endpoints answer later.
Poll(jar) ==
  LET c == Eff(jar)
      present == enabled /\ c \in TokenSet /\ sessions[c] >= 0 IN
  /\ PollOnlyStale => (present /\ ~TokValid(c))
  /\ Step([a |-> "Poll", cookies |-> jar])
  /\ IF DevSessionPollRevives
     THEN /\ last' = [op |-> "Poll", authenticated |-> present]
          /\ sessions' = IF present THEN [sessions EXCEPT ![c] = now + TTL] ELSE sessions
     ELSE /\ last' = [op |-> "Poll", authenticated |-> Valid(jar)]
          /\ sessions' = IF present /\ ~TokValid(c) THEN [sessions EXCEPT ![c] = -1] ELSE sessions
  /\ UNCHANGED <<enabled, now, ticks, ntok, hits, issuedAt, loggedOut, loggedOutJars, admitted>>

Tick(d) ==
  /\ ticks[d] < TickBudget[d]
  /\ Step([a |-> "Tick", d |-> d])
  /\ now' = now + d /\ ticks' = [ticks EXCEPT ![d] = @ + 1]
  /\ last' = [op |-> "Tick"]
  /\ UNCHANGED <<enabled, sessions, ntok, hits, issuedAt, loggedOut, loggedOutJars, admitted>>

Next == \/ \E a \in Addrs : \E good \in BOOLEAN : Login(a, good, 1)
        \/ \E a \in Addrs : \E n \in Bursts : Login(a, FALSE, n)
        \/ \E jar \in Jars : Logout(jar) \/ Request(jar) \/ Poll(jar)
        \/ \E d \in DOMAIN TickBudget : Tick(d)
Spec == Init /\ [][Next]_vars

\* C38 as state invariants: whatever cookie is presented now, the answer of a protected endpoint obeys the predicate
P(jar) == INSTANCE ConsoleAuthProps WITH req <- [cookies |-> jar, served |-> Valid(jar)], now <- now, issuedAt <- issuedAt,
          loggedOut <- loggedOut, loggedOutJars <- loggedOutJars, ttl <- TTL, admitted <- admitted, window <- Window, limit <- Limit
C38_SessionRequired == \A jar \in Jars : P(jar)!C38_SessionRequired
C38_RateLimit == P(<<>>)!C38_RateLimit
\* conformance-level facts (not part of the property): bookkeeping.  The converse direction (a live session is served)
\* is checked by layer C, which compares every observed outcome with the model's.
SessionsAreIssued == \A t \in TokenSet : sessions[t] >= 0 => (issuedAt[t] >= 0 /\ sessions[t] = issuedAt[t] + TTL)
HitsBounded == \A a \in Addrs : Len(hits[a]) <= Limit

\* last is pure output, hist pure history: neither is read by any action or invariant
View == <<enabled, now, ticks, sessions, ntok, hits, issuedAt, loggedOut, loggedOutJars, admitted>>
EmitSched == PrintT(<<"SCHED", ToJson(hist)>>)
====
