---- MODULE Obs_ConsoleAuth ----
(* Observation layer: no model actions.  The histories the property talks about (which tokens   *)
(* were issued by a login with valid credentials and when, which were logged out, which login   *)
(* attempts of an address were let through and when) are accumulated from the recorded HTTP     *)
(* exchanges only; the C38 predicates are the ConsoleAuthProps definitions.                     *)
EXTENDS Integers, Sequences, FiniteSets, TLC, Json
TraceLog == ndJsonDeserialize("trace.ndjson")
AllTokens == {"t1", "t2", "t3", "t4", "t5", "t6", "t7", "t8", "t9", "t10", "t11", "t12"}
AllAddrs == {"a1", "a2"}
VARIABLES l, issuedAt, loggedOut, loggedOutJars, admitted, cfg, viol
ovars == <<l, issuedAt, loggedOut, loggedOutJars, admitted, cfg, viol>>
P(e, ia, lo, lj, ad, c) == INSTANCE ConsoleAuthProps WITH
      req <- [cookies |-> IF e.ev = "Request" THEN e.cookies ELSE <<>>, served |-> IF e.ev = "Request" THEN e.served ELSE FALSE],
      now <- e.now, issuedAt <- ia, loggedOut <- lo, loggedOutJars <- lj, ttl <- c.ttl, admitted <- ad, window <- c.window, limit <- c.limit
NoTok == [t \in AllTokens |-> -1]
NoAdm == [a \in AllAddrs |-> <<>>]
OInit == l = 0 /\ issuedAt = NoTok /\ loggedOut = {} /\ loggedOutJars = {} /\ admitted = NoAdm /\ cfg = [ttl |-> 0, window |-> 0, limit |-> 0] /\ viol = {}
Step ==
  /\ l < Len(TraceLog) /\ l' = l + 1
  /\ LET e == TraceLog[l + 1] IN
     IF e.ev = "Reset"
     THEN /\ issuedAt' = NoTok /\ loggedOut' = {} /\ loggedOutJars' = {} /\ admitted' = NoAdm /\ viol' = viol
          /\ cfg' = [ttl |-> e.ttl, window |-> e.window, limit |-> e.limit]
          /\ (l' = Len(TraceLog)) => PrintT(<<"OBS", ToJson([consumed |-> l', viol |-> viol'])>>)
     ELSE
     /\ cfg' = cfg
     \* a token counts as issued by a successful login only if that login presented valid credentials
     /\ issuedAt' = IF e.ev = "Login" /\ e.good /\ e.status = 200 /\ e.token \in AllTokens THEN [issuedAt EXCEPT ![e.token] = e.now] ELSE issuedAt
     \* a logout presenting exactly one session cookie logs that token out; one presenting several logs out that cookie list
     /\ loggedOut' = IF e.ev = "Logout" /\ e.status = 200 /\ Len(e.cookies) = 1 /\ e.cookies[1] \in AllTokens THEN loggedOut \cup {e.cookies[1]} ELSE loggedOut
     /\ loggedOutJars' = IF e.ev = "Logout" /\ e.status = 200 /\ Len(e.cookies) >= 2 THEN loggedOutJars \cup {e.cookies} ELSE loggedOutJars
     \* attempts older than the window cannot share a window with this or any later attempt: dropped (keeps the check linear)
     /\ admitted' = IF e.ev = "Login" /\ e.adm
                    THEN [admitted EXCEPT ![e.addr] = Append(SelectSeq(@, LAMBDA ts : ts > e.now - cfg.window), e.now)] ELSE admitted
     /\ viol' = viol \cup
          {<<l + 1, n>> : n \in
             (IF e.ev # "Request" \/ P(e, issuedAt', loggedOut', loggedOutJars', admitted', cfg)!C38_SessionRequired THEN {} ELSE {"C38_SessionRequired"}) \cup
             (IF e.ev # "Login" \/ P(e, issuedAt', loggedOut', loggedOutJars', admitted', cfg)!C38_RateLimit THEN {} ELSE {"C38_RateLimit"})}
     /\ (l' = Len(TraceLog)) => PrintT(<<"OBS", ToJson([consumed |-> l', viol |-> viol'])>>)
OSpec == OInit /\ [][Step]_ovars
====
