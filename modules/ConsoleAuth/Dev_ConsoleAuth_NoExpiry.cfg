CONSTANTS
 Addrs = {"a1"}
 Tokens <- Tok2
 Limit = 20
 Window = 60
 TTL = 43200
 TickBudget <- TB_real
 Bursts = {10,19}
 MaxOps = 1000000
 DevNoExpiry = TRUE
 DevLogoutKeeps = FALSE
 DevLimiterPerWindowStart = FALSE
 PollOnlyStale = FALSE
 DevSessionPollRevives = FALSE
 DevAnyCookieValid = FALSE
 PairJars = FALSE
INIT Init
NEXT Next
INVARIANTS C38_SessionRequired C38_RateLimit
VIEW View
CHECK_DEADLOCK FALSE
