CONSTANTS
 Addrs = {"a1","a2"}
 Tokens <- Tok2
 Limit = 2
 Window = 2
 TTL = 3
 TickBudget <- TB_scaled
 Bursts = {}
 MaxOps = 1000000
 DevNoExpiry = FALSE
 DevLogoutKeeps = FALSE
 DevLimiterPerWindowStart = FALSE
 PollOnlyStale = FALSE
 DevSessionPollRevives = FALSE
 DevAnyCookieValid = FALSE
 PairJars = FALSE
INIT Init
NEXT Next
INVARIANTS C38_SessionRequired C38_RateLimit SessionsAreIssued HitsBounded
VIEW View
CHECK_DEADLOCK FALSE
