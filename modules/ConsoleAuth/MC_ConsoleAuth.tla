---- MODULE MC_ConsoleAuth ----
EXTENDS ConsoleAuth
Tok2 == <<"t1", "t2">>
Tok3 == <<"t1", "t2", "t3">>
TB_scaled == (1 :> 6)
Tok1 == <<"t1">>
TB_realq == (30 :> 2) @@ (14400 :> 3)
TB_real == (30 :> 3) @@ (14400 :> 3)
TB_sim == (30 :> 6) @@ (14400 :> 4)
====
