CONSTANTS
 Addrs = {"a1","a2"}
 Tokens <- Tok12
 Limit = 20
 Window = 60
 TTL = 43200
 TickBudget <- TB_trace
 Bursts = {}
 MaxOps = 1000000000
 DevNoExpiry = FALSE
 DevLogoutKeeps = FALSE
 DevLimiterPerWindowStart = FALSE
 PollOnlyStale = FALSE
 DevSessionPollRevives = FALSE
 DevAnyCookieValid = FALSE
 PairJars = TRUE
INIT TInit
NEXT TNext
POSTCONDITION Reached
CHECK_DEADLOCK FALSE
