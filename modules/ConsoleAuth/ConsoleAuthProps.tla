---- MODULE ConsoleAuthProps ----
(* C38 stated once, over parameters.  ConsoleAuth.tla instantiates it with model state and     *)
(* history, Obs_ConsoleAuth.tla with values observed on the real console mux.                   *)
EXTENDS Integers, Sequences, FiniteSets
CONSTANTS req,       \* a request to a protected endpoint: [cookies, served]; cookies = the sequence of session-cookie values it carries
                     \* (usually one; a client may send several same-named cookies); served = the endpoint answered it (did not reject it)
          now,       \* time of the request
          issuedAt,  \* function token -> time at which a login with valid credentials issued it (-1 = never)
          loggedOut, \* set of tokens logged out so far: tokens presented to a logout as its only session cookie
          loggedOutJars, \* set of multi-cookie lists presented to a logout so far (which of several same-named cookies is "the" session is
                     \* unspecified, so only this is demanded: the identical cookie list is not answered any more)
          ttl,       \* configured session lifetime
          admitted,  \* function client address -> sequence of times at which a login attempt of that address was let through to the credential check
          window, limit  \* configured sliding window length and attempts per window

TokLive(c) == /\ c \in DOMAIN issuedAt /\ issuedAt[c] >= 0    \* issued by a successful login
              /\ now <= issuedAt[c] + ttl                     \* not expired
              /\ c \notin loggedOut                           \* not logged out
Live(jar) == /\ \E i \in 1..Len(jar) : TokLive(jar[i])         \* it carries a live session token ...
             /\ jar \notin loggedOutJars                       \* ... and these credentials were not logged out
\* a protected endpoint answers only requests carrying a live session token
C38_SessionRequired == req.served => Live(req.cookies)
\* at most `limit` attempts of one address in any half-open window (t - window, t]  (DESIGN §4 C38: the limiter
\* drops hits with ts <= now - window; the maximum over all t is attained at t = time of some attempt)
C38_RateLimit ==
  \A a \in DOMAIN admitted :
    \A i \in 1..Len(admitted[a]) :
      Cardinality({j \in 1..Len(admitted[a]) : admitted[a][j] > admitted[a][i] - window /\ admitted[a][j] <= admitted[a][i]}) <= limit
====
