CONSTANTS
 Names = {"A","B"}
 NameOrder <- NO2
 Texts = {"x"}
 MaxTok = 4
 MaxRoutesPerName = 1
 WsChoices = {FALSE}
 FixIndependentRoutes = TRUE
 DevOpenOrder = FALSE
 DevFieldsAnyDepth = FALSE
 DevFieldsAllParents = TRUE
INIT Init
NEXT Next
INVARIANTS C45_Fields
VIEW View
CHECK_DEADLOCK FALSE
