---- MODULE Trace_Idoc ----
(* Conformance layer: the whole projected Result of the real ExplodeXML (root, every segment's *)
(* id/name/path/value/fields, the four routed lists in order) must equal Explode(input) of     *)
(* Idoc.tla with the repaired-tree constants.                                                  *)
EXTENDS Idoc
TraceLog == ndJsonDeserialize("trace.ndjson")
VARIABLE l
tvars == <<vars, l>>
E == TraceLog[l]
Cur(ev) == l <= Len(TraceLog) /\ E.ev = ev /\ l' = l + 1
CfgOf(e) == [r \in Routes |-> Range(e.cfg[r])]
SegMatch(m, o) == /\ o.id = m.id /\ o.name = m.name /\ o.path = m.path /\ o.value = m.value
                  /\ o.hf = m.hf /\ Range(o.fields) = Range(m.fields) /\ Len(o.fields) = Len(m.fields)
SeqMatch(ms, os) == Len(ms) = Len(os) /\ \A k \in DOMAIN ms : SegMatch(ms[k], os[k])
OutMatch(m, e) == /\ e.err = "" /\ e.out.root = m.root /\ SeqMatch(m.segs, e.out.segs)
                  /\ \A r \in Routes : SeqMatch(m.routes[r], e.out.routes[r])
TInit == Init /\ l = 1 /\ TLCSet(7, 0)
TExplode == /\ Cur("Explode")
            /\ toks' = E.toks /\ cfg' = CfgOf(E) /\ ws' = E.ws /\ open' = 0 /\ nm' = 1 /\ phase' = "done" /\ hist' = <<>>
            /\ OutMatch(Explode(E.toks, CfgOf(E)), E)
Consumed == TLCSet(7, IF TLCGet(7) < l THEN l ELSE TLCGet(7))
TNext == TExplode /\ Consumed
TSpec == TInit /\ [][TNext]_tvars
TNO == <<"A", "B", "C">>
Reached == PrintT(<<"CONF", ToJson([reached |-> TLCGet(7), total |-> Len(TraceLog)])>>)
====
