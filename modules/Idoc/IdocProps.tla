---- MODULE IdocProps ----
(* C45 stated once, from the property statement, over parameters.                              *)
(* Idoc.tla instantiates it with the result of the model's Explode, Obs_Idoc.tla with the      *)
(* Result observed from the real idoc.ExplodeXML.                                               *)
(* The document notions (element, closes, direct child, text) are read off the token sequence  *)
(* by `Parse`; nothing of ExplodeXML's routing / Fields bookkeeping is used here.              *)
EXTENDS Integers, Sequences, FiniteSets
CONSTANTS toks,  \* input document: sequence of <<"S", name>> | <<"T", text>> | <<"E", "">>, well-formed, one root
          cfg,   \* input routing: [route -> set of names configured for that route]
          res    \* output: [segs |-> Seq(seg), routes |-> [route -> Seq(seg)]],
                 \*   seg = [id (k = element opened k-th), name, fields (sequence of <<child name, text>>), ...]
Routes == {"items", "partners", "statuses", "dates"}
Range(s) == {s[i] : i \in DOMAIN s}
\* One pass over the tokens: element k is the k-th start tag; its parent is the element open at that
\* moment, its text the character data directly inside it, and it closes at its end tag.
RECURSIVE Parse(_, _, _)
Parse(i, open, d) ==
  IF i > Len(toks) THEN d
  ELSE LET t == toks[i] IN
    CASE t[1] = "S" -> Parse(i + 1, Append(open, Len(d.name) + 1),
                             [d EXCEPT !.name = Append(@, t[2]), !.text = Append(@, ""),
                                       !.parent = Append(@, IF open = <<>> THEN 0 ELSE open[Len(open)])])
      [] t[1] = "T" -> Parse(i + 1, open, [d EXCEPT !.text[open[Len(open)]] = @ \o t[2]])
      [] OTHER      -> Parse(i + 1, SubSeq(open, 1, Len(open) - 1), [d EXCEPT !.closed = Append(@, open[Len(open)])])
Doc == Parse(1, <<>>, [name |-> <<>>, text |-> <<>>, parent |-> <<>>, closed |-> <<>>])

NoDup(s) == \A i, j \in DOMAIN s : i # j => s[i].id # s[j].id
ChildFields(d, id) == {c \in DOMAIN d.name : d.parent[c] = id /\ d.text[c] # ""}   \* direct children with non-empty text
FieldsOk(d, seg) ==
  /\ seg.id \in DOMAIN d.name
  /\ {f[1] : f \in Range(seg.fields)} = {d.name[c] : c \in ChildFields(d, seg.id)}
  /\ \A f \in Range(seg.fields) : \E c \in ChildFields(d, seg.id) : d.name[c] = f[1] /\ d.text[c] = f[2]
  /\ \A i, j \in DOMAIN seg.fields : i # j => seg.fields[i][1] # seg.fields[j][1]

\* (`o == res`, `c == cfg`: bind the substituted expressions once per evaluation)
\* exactly one segment entry per element, listed in the order the elements close
C45_OnePerElement == LET d == Doc  o == res IN
  /\ Len(o.segs) = Len(d.name)
  /\ \A k \in DOMAIN o.segs : o.segs[k].id = d.closed[k] /\ o.segs[k].name = d.name[d.closed[k]]
\* each routed list holds exactly the segments whose names are configured for that route
C45_Routes == LET d == Doc  o == res  c == cfg IN
  \A r \in Routes :
    /\ NoDup(o.routes[r])
    /\ {s.id : s \in Range(o.routes[r])} = {id \in DOMAIN d.name : d.name[id] \in c[r]}
    /\ \A s \in Range(o.routes[r]) : s.id \in DOMAIN d.name /\ s.name = d.name[s.id]
\* a routed segment's fields are its direct children with non-empty text
C45_Fields == LET d == Doc  o == res  routed == UNION {cfg[r] : r \in Routes} IN
  /\ \A r \in Routes : \A s \in Range(o.routes[r]) : FieldsOk(d, s)
  /\ \A s \in Range(o.segs) : (s.id \in DOMAIN d.name /\ d.name[s.id] \in routed) => FieldsOk(d, s)
====
