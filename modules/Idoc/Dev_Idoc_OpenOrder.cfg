CONSTANTS
 Names = {"A","B"}
 NameOrder <- NO2
 Texts = {"x"}
 MaxTok = 4
 MaxRoutesPerName = 1
 WsChoices = {FALSE}
 FixIndependentRoutes = TRUE
 DevOpenOrder = TRUE
 DevFieldsAnyDepth = FALSE
 DevFieldsAllParents = FALSE
INIT Init
NEXT Next
INVARIANTS C45_OnePerElement
VIEW View
CHECK_DEADLOCK FALSE
