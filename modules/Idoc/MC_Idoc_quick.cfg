CONSTANTS
 Names = {"A","B"}
 NameOrder <- NO2
 Texts = {"x"}
 MaxTok = 6
 MaxRoutesPerName = 2
 WsChoices = {FALSE}
 FixIndependentRoutes = TRUE
 DevOpenOrder = FALSE
 DevFieldsAnyDepth = FALSE
 DevFieldsAllParents = FALSE
INIT Init
NEXT Next
INVARIANTS C45_OnePerElement C45_Routes C45_Fields EmitInput
VIEW View
CHECK_DEADLOCK FALSE
