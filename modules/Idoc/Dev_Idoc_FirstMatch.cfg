CONSTANTS
 Names = {"A","B"}
 NameOrder <- NO2
 Texts = {"x"}
 MaxTok = 4
 MaxRoutesPerName = 2
 WsChoices = {FALSE}
 FixIndependentRoutes = FALSE
 DevOpenOrder = FALSE
 DevFieldsAnyDepth = FALSE
 DevFieldsAllParents = FALSE
INIT Init
NEXT Next
INVARIANTS C45_Routes
VIEW View
CHECK_DEADLOCK FALSE
