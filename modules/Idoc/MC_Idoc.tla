---- MODULE MC_Idoc ----
EXTENDS Idoc
NO2 == <<"A", "B">>
NO3 == <<"A", "B", "C">>
====
