---- MODULE Obs_Idoc ----
(* Observation layer: no model.  Every line is one call of the real idoc.ExplodeXML: the      *)
(* abstract input (tokens, routing) and the projected real Result.  The C45 clauses are the   *)
(* IdocProps definitions instantiated with the observed Result.                               *)
EXTENDS Integers, Sequences, FiniteSets, TLC, Json
TraceLog == ndJsonDeserialize("trace.ndjson")
Routes == {"items", "partners", "statuses", "dates"}
Rng(s) == {s[i] : i \in DOMAIN s}
VARIABLES l, viol
ovars == <<l, viol>>
P(e) == INSTANCE IdocProps WITH toks <- e.toks, cfg <- [r \in Routes |-> Rng(e.cfg[r])], res <- e.out
OInit == l = 0 /\ viol = {}
Step ==
  /\ l < Len(TraceLog) /\ l' = l + 1
  /\ LET e == TraceLog[l + 1] IN
     /\ viol' = IF e.ev # "Explode" THEN viol ELSE viol \cup
          {<<l + 1, n>> : n \in
             (IF P(e)!C45_OnePerElement THEN {} ELSE {"C45_OnePerElement"}) \cup
             (IF P(e)!C45_Routes THEN {} ELSE {"C45_Routes"}) \cup
             (IF P(e)!C45_Fields THEN {} ELSE {"C45_Fields"})}
     /\ (l' = Len(TraceLog)) => PrintT(<<"OBS", ToJson([consumed |-> l', viol |-> viol'])>>)
OSpec == OInit /\ [][Step]_ovars
====
