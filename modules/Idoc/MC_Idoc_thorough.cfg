CONSTANTS
 Names = {"A","B","C"}
 NameOrder <- NO3
 Texts = {"x","y"}
 MaxTok = 6
 MaxRoutesPerName = 2
 WsChoices = {FALSE, TRUE}
 FixIndependentRoutes = TRUE
 DevOpenOrder = FALSE
 DevFieldsAnyDepth = FALSE
 DevFieldsAllParents = FALSE
INIT Init
NEXT Next
INVARIANTS C45_OnePerElement C45_Routes C45_Fields 
VIEW View
CHECK_DEADLOCK FALSE
