package idoc

// Verification harness (injected with `go test -overlay`; not part of the repository).
// Every input enumerated by TLC (Idoc.tla: a token sequence, a routing configuration, a rendering
// flag) is rendered to XML + ExplodeConfig and run through the real ExplodeXML.  One ndjson line
// per input: the abstract input and a projection of the real Result.  Element identity travels in
// the attribute i="k" (k-th start tag), which ExplodeXML copies into Segment.Attributes.

import (
	"bufio"
	"encoding/json"
	"os"
	"sort"
	"strconv"
	"strings"
	"testing"
)

type viStep struct {
	A  string   `json:"a"`
	N  string   `json:"n"`
	Rs []string `json:"rs"`
	Ws bool     `json:"ws"`
}

type viInput struct {
	Steps []viStep `json:"steps"`
}

// abstract names -> realistic IDoc segment names (none of them is an HTML auto-close element)
var viNames = map[string]string{"A": "E1EDP01", "B": "E1EDKA1", "C": "POSEX"}
var viRev = map[string]string{"E1EDP01": "A", "E1EDKA1": "B", "POSEX": "C"}

func viSeg(s Segment) map[string]any {
	id := 0
	if v, ok := s.Attributes["i"]; ok {
		id, _ = strconv.Atoi(v)
	}
	fields := [][]string{}
	keys := make([]string, 0, len(s.Fields))
	for k := range s.Fields {
		keys = append(keys, k)
	}
	sort.Strings(keys)
	for _, k := range keys {
		fields = append(fields, []string{viAbs(k), s.Fields[k]})
	}
	parts := strings.Split(s.Path, "/")
	for i := range parts {
		parts[i] = viAbs(parts[i])
	}
	return map[string]any{"id": id, "name": viAbs(s.Name), "path": strings.Join(parts, "/"), "value": s.Value,
		"fields": fields, "hf": s.Fields != nil}
}

func viAbs(n string) string {
	if a, ok := viRev[n]; ok {
		return a
	}
	return "?" + n
}

func viSegs(l []Segment) []map[string]any {
	out := []map[string]any{}
	for _, s := range l {
		out = append(out, viSeg(s))
	}
	return out
}

func TestVerifIdocExplode(t *testing.T) {
	in, outPath := os.Getenv("VERIF_SCHEDULES"), os.Getenv("VERIF_TRACE_OUT")
	if in == "" || outPath == "" {
		t.Skip("no inputs")
	}
	f, err := os.Open(in)
	if err != nil {
		t.Fatal(err)
	}
	defer f.Close()
	out, err := os.Create(outPath)
	if err != nil {
		t.Fatal(err)
	}
	defer out.Close()
	w := bufio.NewWriterSize(out, 1<<20)
	defer w.Flush()
	sc := bufio.NewScanner(f)
	sc.Buffer(make([]byte, 1<<20), 1<<26)
	n := 0
	for sc.Scan() {
		var inp viInput
		if err := json.Unmarshal(sc.Bytes(), &inp); err != nil {
			t.Fatal(err)
		}
		toks := [][]string{}
		routes := map[string][]string{"items": {}, "partners": {}, "statuses": {}, "dates": {}}
		ws := false
		for _, st := range inp.Steps {
			switch st.A {
			case "Open":
				toks = append(toks, []string{"S", st.N})
			case "Txt":
				toks = append(toks, []string{"T", st.N})
			case "Close":
				toks = append(toks, []string{"E", ""})
			case "Route":
				for _, r := range st.Rs {
					routes[r] = append(routes[r], st.N)
				}
			case "Render":
				ws = st.Ws
			default:
				t.Fatalf("unknown step %q", st.A)
			}
		}
		// render
		var b strings.Builder
		b.WriteString(`<?xml version="1.0"?>`)
		var stack []string
		// which elements have character data of their own (indentation is never put inside those)
		hasText := map[int]bool{}
		{
			var open []int
			k := 0
			for _, tk := range toks {
				switch tk[0] {
				case "S":
					k++
					open = append(open, k)
				case "T":
					hasText[open[len(open)-1]] = true
				case "E":
					open = open[:len(open)-1]
				}
			}
		}
		var openIDs []int
		id, depth := 0, 0
		for i, tk := range toks {
			if ws && (i == 0 || toks[i-1][0] != "T") && tk[0] != "T" && (len(openIDs) == 0 || !hasText[openIDs[len(openIDs)-1]]) {
				// indentation only between two tags, and only inside elements without character data
				b.WriteString("\n" + strings.Repeat("  ", depth-btoi(tk[0] == "E")))
			}
			switch tk[0] {
			case "S":
				id++
				name := viNames[tk[1]]
				b.WriteString("<" + name + ` i="` + strconv.Itoa(id) + `">`)
				stack = append(stack, name)
				openIDs = append(openIDs, id)
				depth++
			case "T":
				b.WriteString(tk[1])
			case "E":
				b.WriteString("</" + stack[len(stack)-1] + ">")
				stack = stack[:len(stack)-1]
				openIDs = openIDs[:len(openIDs)-1]
				depth--
			}
		}
		if ws {
			b.WriteString("\n")
		}
		conc := func(l []string) []string {
			o := []string{}
			for _, a := range l {
				o = append(o, viNames[a])
			}
			return o
		}
		cfg := ExplodeConfig{ItemSegments: conc(routes["items"]), PartnerSegments: conc(routes["partners"]),
			StatusSegments: conc(routes["statuses"]), DateSegments: conc(routes["dates"])}
		res, err := ExplodeXML([]byte(b.String()), cfg)
		errs := ""
		if err != nil {
			errs = err.Error()
		}
		line := map[string]any{"ev": "Explode", "k": n, "toks": toks, "cfg": routes, "ws": ws, "err": errs, "xml": b.String(),
			"out": map[string]any{"root": viAbs(res.Header.Root), "segs": viSegs(res.Segments),
				"routes": map[string]any{"items": viSegs(res.Items), "partners": viSegs(res.Partners),
					"statuses": viSegs(res.Statuses), "dates": viSegs(res.Dates)}}}
		bs, _ := json.Marshal(line)
		w.Write(bs)
		w.WriteByte('\n')
		n++
	}
	t.Logf("replayed %d schedules", n)
}

func btoi(b bool) int {
	if b {
		return 1
	}
	return 0
}
