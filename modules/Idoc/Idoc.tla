---- MODULE Idoc ----
(* pkg/idoc/explode.go: ExplodeXML.  Function-level module (DESIGN 3.3): the actions ENUMERATE  *)
(* the bounded input domain (a well-formed token sequence, built token by token; then a routing *)
(* configuration, one name at a time; then the rendering flag), `Explode` is the decoder loop    *)
(* of the code written as a stack machine, and the C45 clauses (IdocProps, written from the     *)
(* statement) are invariants over every completed input.                                        *)
EXTENDS Integers, Sequences, FiniteSets, TLC, Json
CONSTANTS Names,            \* element names, e.g. {"A","B","C"}
          NameOrder,        \* the same names as a sequence (order in which the routing is chosen)
          Texts,            \* non-empty character data values
          MaxTok,           \* bound on the number of tokens
          MaxRoutesPerName, \* a name is configured for at most this many routes
          WsChoices,        \* rendering flags to enumerate ({FALSE} or BOOLEAN): TRUE = indentation between tags
          FixIndependentRoutes, \* TRUE: every route is tested on its own (repaired tree); FALSE: first-match switch (pinned tree)
          DevOpenOrder,     \* deviation: the segment is appended when the element opens
          DevFieldsAnyDepth,\* deviation: a valued element is added to the nearest routed ancestor, not only to its parent
          DevFieldsAllParents \* deviation: Fields filled for every parent, and routed test skipped (fields on unrouted only shows in layer C); keeps empty-text children
VARIABLES toks, open, cfg, nm, ws, phase, hist
vars == <<toks, open, cfg, nm, ws, phase, hist>>
RouteOrder == <<"items", "partners", "statuses", "dates">>
Routes == {"items", "partners", "statuses", "dates"}
Range(s) == {s[i] : i \in DOMAIN s}

Init == /\ toks = <<>> /\ open = 0 /\ cfg = [r \in Routes |-> {}] /\ nm = 1 /\ ws = FALSE /\ phase = "tree" /\ hist = <<>>

\* ---- enumeration of the input domain -------------------------------------------------------
Open(n) == /\ phase = "tree" /\ (open = 0 => toks = <<>>)
           /\ Len(toks) + open + 2 <= MaxTok
           /\ toks' = Append(toks, <<"S", n>>) /\ open' = open + 1
           /\ hist' = Append(hist, [a |-> "Open", n |-> n]) /\ UNCHANGED <<cfg, nm, ws, phase>>
Txt(v) == /\ phase = "tree" /\ open > 0 /\ toks[Len(toks)][1] # "T"
          /\ Len(toks) + open + 1 <= MaxTok
          /\ toks' = Append(toks, <<"T", v>>)
          /\ hist' = Append(hist, [a |-> "Txt", n |-> v]) /\ UNCHANGED <<open, cfg, nm, ws, phase>>
Close == /\ phase = "tree" /\ open > 0
         /\ toks' = Append(toks, <<"E", "">>) /\ open' = open - 1
         /\ phase' = IF open = 1 THEN "cfg" ELSE "tree"
         /\ hist' = Append(hist, [a |-> "Close", n |-> ""]) /\ UNCHANGED <<cfg, nm, ws>>
Assign(rs) == /\ phase = "cfg" /\ nm <= Len(NameOrder) /\ Cardinality(rs) <= MaxRoutesPerName
              /\ cfg' = [r \in Routes |-> IF r \in rs THEN cfg[r] \cup {NameOrder[nm]} ELSE cfg[r]]
              /\ nm' = nm + 1
              /\ phase' = IF nm = Len(NameOrder) THEN "ws" ELSE "cfg"
              /\ hist' = Append(hist, [a |-> "Route", n |-> NameOrder[nm], rs |-> rs]) /\ UNCHANGED <<toks, open, ws>>
Render(w) == /\ phase = "ws" /\ ws' = w /\ phase' = "done"
             /\ hist' = Append(hist, [a |-> "Render", n |-> "", ws |-> w]) /\ UNCHANGED <<toks, open, cfg, nm>>
Next == \/ \E n \in Names : Open(n)
        \/ \E v \in Texts : Txt(v)
        \/ Close
        \/ \E rs \in SUBSET Routes : Assign(rs)
        \/ \E w \in WsChoices : Render(w)
Spec == Init /\ [][Next]_vars
Done == phase = "done"

\* ---- ExplodeXML as the code computes it ----------------------------------------------------
IsRouted(c, n) == \E r \in Routes : n \in c[r]
PutField(fs, n, v) == IF \E i \in DOMAIN fs : fs[i][1] = n
                      THEN [i \in DOMAIN fs |-> IF fs[i][1] = n THEN <<n, v>> ELSE fs[i]]
                      ELSE Append(fs, <<n, v>>)
\* index of the frame that receives a valued child: the parent (code), or the nearest routed ancestor (deviation)
Receiver(st) == IF DevFieldsAnyDepth
                THEN (IF \E i \in DOMAIN st : st[i].hf THEN CHOOSE i \in DOMAIN st : st[i].hf /\ \A j \in DOMAIN st : st[j].hf => j <= i ELSE 0)
                ELSE (IF Len(st) > 0 /\ st[Len(st)].hf THEN Len(st) ELSE 0)
FirstRoute(c, n) == CHOOSE i \in 1..4 : n \in c[RouteOrder[i]] /\ \A j \in 1..(i-1) : n \notin c[RouteOrder[j]]
InRoute(c, r, n) == IF FixIndependentRoutes THEN n \in c[r]
                    ELSE IsRouted(c, n) /\ RouteOrder[FirstRoute(c, n)] = r
PathOf(st, n) == IF st = <<>> THEN n ELSE st[Len(st)].path \o "/" \o n
RECURSIVE Run(_, _, _, _, _, _)
Run(tk, c, i, st, out, nid) ==
  IF i > Len(tk) THEN out
  ELSE LET t == tk[i] IN
    CASE t[1] = "S" ->
           LET fr == [id |-> nid, name |-> t[2], path |-> PathOf(st, t[2]), value |-> "", fields |-> <<>>,
                      hf |-> IsRouted(c, t[2]) \/ DevFieldsAllParents]
           IN Run(tk, c, i + 1, Append(st, fr), IF DevOpenOrder THEN Append(out, fr) ELSE out, nid + 1)
      [] t[1] = "T" -> Run(tk, c, i + 1, [st EXCEPT ![Len(st)].value = @ \o t[2]], out, nid)
      [] OTHER ->
           LET fr == st[Len(st)]
               rest == SubSeq(st, 1, Len(st) - 1)
               rc == Receiver(rest)
               rest2 == IF (fr.value # "" \/ DevFieldsAllParents) /\ rc # 0
                        THEN [rest EXCEPT ![rc].fields = PutField(@, fr.name, fr.value)] ELSE rest
           IN Run(tk, c, i + 1, rest2, IF DevOpenOrder THEN out ELSE Append(out, fr), nid)
Explode(tk, c) ==
  LET segs == Run(tk, c, 1, <<>>, <<>>, 1)
  IN [root |-> tk[1][2], segs |-> segs,
      routes |-> [r \in Routes |-> SelectSeq(segs, LAMBDA s : InRoute(c, r, s.name))]]

\* with DevOpenOrder the appended frame is the frame at opening time (no fields/value yet) - good enough to show the order clause

Result == Explode(toks, cfg)
P == INSTANCE IdocProps WITH toks <- toks, cfg <- cfg, res <- Result
C45_OnePerElement == Done => P!C45_OnePerElement
C45_Routes == Done => P!C45_Routes
C45_Fields == Done => P!C45_Fields

View == <<toks, open, cfg, nm, ws, phase>>
EmitInput == Done => PrintT(<<"INPUT", ToJson(hist)>>)
EmitSched == EmitInput
====
