CONSTANTS
 Names = {"A","B","C"}
 NameOrder <- TNO
 Texts = {"x","y"}
 MaxTok = 100
 MaxRoutesPerName = 4
 WsChoices = {FALSE, TRUE}
 FixIndependentRoutes = TRUE
 DevOpenOrder = FALSE
 DevFieldsAnyDepth = FALSE
 DevFieldsAllParents = FALSE
INIT TInit
NEXT TNext
POSTCONDITION Reached
CHECK_DEADLOCK FALSE
