CONSTANTS
 Names = {"A","B","C"}
 NameOrder <- NO3
 Texts = {"x","y"}
 MaxTok = 8
 MaxRoutesPerName = 2
 WsChoices = {FALSE, TRUE}
 FixIndependentRoutes = TRUE
 DevOpenOrder = FALSE
 DevFieldsAnyDepth = FALSE
 DevFieldsAllParents = FALSE
INIT Init
NEXT Next
INVARIANTS EmitInput C45_OnePerElement C45_Routes C45_Fields
CHECK_DEADLOCK FALSE
