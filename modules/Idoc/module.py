"""Idoc.tla — C45 (pkg/idoc/explode.go: ExplodeXML).  Function-level module (DESIGN §3.3)."""
import copy, json, os, re
from lib import tlc as T, layers, gorun
from lib.common import Broken, Violation, verdict, save_replay

PROPS = {
    "C45": {
        "text": "Idoc.tla enumerates, by TLC actions, every well-formed token sequence (start/text/end, bounded length, 2-3 element names) together with every routing configuration in which a name belongs to at most two of the four routes, and a rendering flag; TLC checks the three C45 clauses (IdocProps.tla, written from the statement) on the model's transcription of the decoder loop for the whole domain. Every enumerated input (whole small domain, plus seeded TLC simulation samples of the larger one and the counterexamples of four named wrong designs) is rendered to XML and run through the real idoc.ExplodeXML; TLC evaluates the same C45 predicates on the recorded real Result (layer O) and compares the complete Result with the model function (layer C).",
        "note": "Trusted: TLC, encoding/xml, the harness rendering (abstract names A/B/C -> E1EDP01/E1EDKA1/POSEX, element identity carried in an attribute i=k that ExplodeXML copies into Segment.Attributes), projection of Segment.Fields to sorted pairs. Well-formed single-root documents only; text values without inner whitespace; indentation (ws flag) is inserted only between two tags. Bounded: <= 6 tokens exhaustively (8 in simulation).",
        "technique": "TLA+ model (Idoc.tla) + TLC exhaustive check of the bounded input domain + every enumerated input run through ExplodeXML + TLC evaluation of the property predicates on the real results (observation layer) and comparison with the model function (conformance layer)",
    }
}
DEVIATIONS = {"FirstMatch": "C45_Routes", "OpenOrder": "C45_OnePerElement", "FieldsAnyDepth": "C45_Fields", "FieldsAllParents": "C45_Fields"}
W = 6  # TLC workers (shared machine)


def harness(ctx, inputs, tag):
    sp = os.path.join(ctx.scratch, "in-%s.ndjson" % tag)
    tp = os.path.join(ctx.scratch, "trace-%s.ndjson" % tag)
    gorun.write_ndjson(sp, [{"steps": h} for h in inputs])
    rc, out = gorun.go_test(ctx, ".", "./pkg/idoc/", {"pkg/idoc/zz_verif_idoc_test.go": os.path.join(DIR, "harness", "idoc_verif_test.go")},
                            "^TestVerifIdocExplode$", env={"VERIF_SCHEDULES": sp, "VERIF_TRACE_OUT": tp})
    if rc != 0 or "replayed %d schedules" % len(inputs) not in out:
        raise Broken("idoc harness failed:\n" + out[-3000:])
    rows = gorun.read_ndjson(tp)
    if len(rows) != len(inputs):
        raise Broken("idoc harness recorded %d lines for %d inputs" % (len(rows), len(inputs)))
    return rows


def input_class(row):
    """Discriminating class of an input (for signatures / non-triviality), computed from the abstract input only."""
    names = {t[1] for t in row["toks"] if t[0] == "S"}
    nroutes = {n: sum(1 for r in row["cfg"].values() if n in r) for n in names}
    if any(v >= 2 for v in nroutes.values()):
        return "name-in-two-routes"
    if any(v == 1 for v in nroutes.values()):
        return "routed"
    return "unrouted"


def par(fns):
    """Run independent TLC jobs concurrently (each is a subprocess); exceptions propagate."""
    from concurrent.futures import ThreadPoolExecutor
    with ThreadPoolExecutor(max_workers=len(fns)) as ex:
        futs = [ex.submit(f) for f in fns]
        return [f.result() for f in futs]


def dedup(hs):
    seen, out = set(), []
    for h in hs:
        k = json.dumps(h, sort_keys=True)
        if k not in seen:
            seen.add(k)
            out.append(h)
    return out


def check(ctx, prop):
    quick = ctx.quick()
    d = T.stage(ctx, DIR, "mc")
    # 1. exhaustive model check of the bounded domain; the quick config also prints every complete input
    mcq = T.model_check(ctx, d, "MC_Idoc.tla", "MC_Idoc_quick.cfg", workers=W, timeout=600)
    small = mcq.prints.get("INPUT", [])
    if not small:
        raise Broken("the quick model printed no inputs")
    small.sort(key=lambda h: json.dumps(h, sort_keys=True))   # TLC workers print in arbitrary order
    mc = mcq
    if not quick:
        mc = T.model_check(ctx, d, "MC_Idoc.tla", "MC_Idoc_thorough.cfg", workers=W, coverage=True, timeout=3000)
        cov_actions = {k: v[1] for k, v in mc.action_coverage().items() if k in ("Open", "Txt", "Close", "Assign", "Render")}
        if any(v == 0 for v in cov_actions.values()) or len(cov_actions) < 5:
            raise Broken("vacuous model run: action coverage %s" % cov_actions)
    ctx.log("model: %d distinct states (%s), %d complete inputs of the small domain" % (mc.distinct, ctx.tier, len(small)))
    # 2. counterexamples of the named wrong designs (regression inputs) and
    # 3. seeded simulation samples of the larger domain -- independent TLC runs, started together
    def dev_run(dev):
        dd = T.stage(ctx, DIR, "dev-" + dev)
        return T.counterexample_hist(ctx, dd, "MC_Idoc.tla", "Dev_Idoc_%s.cfg" % dev, workers=1, timeout=600)

    def sim_run():
        ds = T.stage(ctx, DIR, "sim")
        return T.simulate_hists(ctx, ds, "MC_Idoc.tla", "Sim_Idoc.cfg", num=(400 if quick else 20000), depth=16, seed=ctx.seed, tag="INPUT", timeout=1500)

    devs = sorted(DEVIATIONS)
    res = par([(lambda dv=dv: dev_run(dv)) for dv in devs] + [sim_run])
    inputs, labels = [], []
    for dev, (h, r) in zip(devs, res[:-1]):
        inv = DEVIATIONS[dev]
        if h is None or inv not in r.violated:
            raise Broken("deviation %s no longer violates %s in the model (vacuous deviation)" % (dev, inv))
        inputs.append(h); labels.append("dev:" + dev)
    for h in small:
        inputs.append(h); labels.append("enum")
    hs, _ = res[-1]
    nsim = 0
    for h in hs:
        if h and h[-1]["a"] == "Render":
            inputs.append(h); labels.append("sim"); nsim += 1
    if nsim < (100 if quick else 5000):
        raise Broken("simulation produced only %d complete inputs" % nsim)
    ctx.log("%d inputs (%d deviation counterexamples, %d enumerated, %d simulated)" % (len(inputs), len(DEVIATIONS), len(small), nsim))
    rows = harness(ctx, inputs, "main")
    ctx.log("harness: %d real results recorded" % len(rows))
    # binding self-test lines ride at the end of the main traces (one TLC start per layer):
    # layer O must flag a routed list that lost a segment, layer C must reject a changed value
    badO, badC = corrupt(rows)
    # 4. layer O: the C45 predicates on the real results
    consumed, viol, _ = layers.observe(ctx, DIR, "Obs_Idoc.tla", "Obs_Idoc.cfg", rows + [badO], timeout=3000)
    if not any(l == len(rows) + 1 and v == "C45_Routes" for l, v in viol):
        raise Broken("binding self-test: observation layer did not flag a routed list that lost a segment")
    viol = [(l, v) for l, v in viol if l <= len(rows)]
    ctx.log("layer O: %d lines, %d predicate failures" % (len(rows), len(viol)))
    violations, per_sig = [], {}
    for line, inv in sorted(viol):
        row = rows[line - 1]
        sig = "%s@%s" % (inv, input_class(row))
        per_sig.setdefault(sig, []).append(line)
        if len(per_sig[sig]) > 1:
            continue
        path = save_replay(prop, "input-%s.json" % re.sub(r"\W", "_", sig), {"steps": inputs[line - 1], "label": labels[line - 1], "line": row})
        violations.append(Violation(prop, sig, "%s false on the Result of the real ExplodeXML for %s routing=%s [%s, replay %s]" % (
            inv, row["xml"], json.dumps(row["cfg"], sort_keys=True), labels[line - 1], path), {"steps": inputs[line - 1], "line": row}))
    for v in violations:
        v.what += " (%d inputs with this signature)" % len(per_sig[v.sig])
    # 5. layer C: complete Result = Explode(input)
    reached, total, _ = layers.conform(ctx, DIR, "Trace_Idoc.tla", "Trace_Idoc.cfg", rows + [badC], timeout=3000)
    if reached > len(rows):
        raise Broken("binding self-test: conformance layer accepted a corrupted segment value")
    if reached < len(rows):  # drift: the corrupted line was never reached, test it on its own
        r1, t1, _ = layers.conform(ctx, DIR, "Trace_Idoc.tla", "Trace_Idoc.cfg", [badC], name="selfC")
        if r1 == t1:
            raise Broken("binding self-test: conformance layer accepted a corrupted segment value")
    total = len(rows)
    ctx.log("layer C: %d of %d lines accepted" % (reached, total))
    conf = {"accepted_lines": reached, "total_lines": total, "first_rejection": None if reached == total else rows[reached]}
    drift = reached != total
    st = {"observation_layer_flags_corrupted_field": True, "conformance_layer_rejects_corrupted_state": True}
    level = "model_checking"
    if drift and not violations:
        level = "exploration"
        ctx.log("DRIFT: conformance layer rejected line %d although C45 held: %s" % (reached + 1, json.dumps(conf["first_rejection"])[:600]))
    classes = {}
    for r in rows:
        c = input_class(r)
        classes[c] = classes.get(c, 0) + 1
    nontrivial = sum(1 for r in rows if input_class(r) != "unrouted" and sum(1 for t in r["toks"] if t[0] == "S") >= 2)
    cov = {
        "states": mc.distinct, "transitions": mc.generated, "depth": mc.depth, "exhaustive": True,
        "model_config": "MC_Idoc_%s.cfg" % ctx.tier,
        "traces_validated_against_impl": len(rows), "trace_events": len(rows),
        "evaluations": len(rows), "distinct_nontrivial": nontrivial, "input_classes": classes,
        "rule": "inputs = every complete input of MC_Idoc_quick (TLC-enumerated) + TLC -simulate samples of Sim_Idoc (seeded) + counterexamples of the named deviations; non-trivial = at least two elements and at least one element whose name is configured for a route",
        "deviation_schedules": sorted(DEVIATIONS), "conformance": ("drift" if drift else "accepted"), "conformance_detail": conf,
        "binding_self_test": st,
        "samples": [inputs[0], {k: rows[0][k] for k in ("toks", "cfg", "xml", "out")}, inputs[len(DEVIATIONS) + len(small) // 2]],
    }
    if not quick:
        cov["action_coverage"] = cov_actions
    return verdict(ctx, violations, level, cov, [
        "documents are well-formed with a single root; names are rendered as E1EDP01/E1EDKA1/POSEX; element identity is the attribute i=k",
        "text values contain no inner whitespace; indentation is inserted only between two tags and is not text",
        "duplicate child names: the statement does not say which value wins, any non-empty direct child's text is accepted for the field"])


def corrupt(rows):
    pick = None
    for r in rows:
        if any(len(v) > 0 for v in r["out"]["routes"].values()) and any(s["value"] for s in r["out"]["segs"]):
            pick = r
            break
    if pick is None:
        raise Broken("binding self-test: no recorded line with a routed segment and a value")
    badO = copy.deepcopy(pick)
    for k, v in sorted(badO["out"]["routes"].items()):
        if v:
            v.pop()
            break
    badC = copy.deepcopy(pick)
    for s in badC["out"]["segs"]:
        if s["value"]:
            s["value"] += "!"
            break
    return badO, badC


def replay(ctx, prop, path):
    obj = json.load(open(path))
    steps = obj.get("steps") or obj.get("detail", {}).get("steps")
    rows = harness(ctx, [steps], "replay")
    _, viol, _ = layers.observe(ctx, DIR, "Obs_Idoc.tla", "Obs_Idoc.cfg", rows)
    for r in rows:
        print(json.dumps(r, sort_keys=True))
    for line, inv in viol:
        print("VIOLATION property=%s replay=%s" % (prop, path))
        print("  %s false at line %d" % (inv, line))
    return 1 if viol else 0
