"""Shared plumbing for /verif checks: environment, scratch dirs, results, verdicts."""
import json, os, shutil, subprocess, sys, tempfile, time, hashlib

VERIF = os.path.dirname(os.path.dirname(os.path.abspath(__file__)))
REPO = os.environ.get("VERIF_REPO", "/repo")
TLA_JAR = "/opt/veriftools/tla/tla2tools.jar"
NCPU = os.cpu_count() or 4


class Broken(Exception):
    """Infrastructure failure (build error, dead driver, TLC crash, vacuous run): exit 2, never a verdict."""


class Ctx:
    def __init__(self, prop, tier, seed):
        self.prop, self.tier, self.seed = prop, tier, seed
        self.t0 = time.time()
        self.scratch = tempfile.mkdtemp(prefix="verif-%s-" % prop, dir=os.environ.get("VERIF_SCRATCH_BASE", "/tmp"))
        self.notes = []

    def sub(self, name):
        d = os.path.join(self.scratch, name)
        os.makedirs(d, exist_ok=True)
        return d

    def cleanup(self):
        if os.environ.get("VERIF_KEEP"):
            print("scratch kept at", self.scratch, file=sys.stderr)
            return
        shutil.rmtree(self.scratch, ignore_errors=True)

    def elapsed(self):
        return time.time() - self.t0

    def quick(self):
        return self.tier == "quick"

    def log(self, *a):
        print("[%s %6.1fs]" % (self.prop, self.elapsed()), *a, file=sys.stderr, flush=True)


def go_env():
    env = dict(os.environ)
    env["GOFLAGS"] = "-mod=mod"
    env["GOPROXY"] = "off"
    env.pop("GOTOOLCHAIN", None)  # repo needs go1.25.2 from the module cache: leave on auto
    env.pop("GOSUMDB", None)
    return env


def run(cmd, cwd=None, env=None, timeout=None, check=False):
    p = subprocess.run(cmd, cwd=cwd, env=env, timeout=timeout, stdout=subprocess.PIPE, stderr=subprocess.STDOUT, text=True, errors="replace")
    if check and p.returncode != 0:
        raise Broken("command failed (%d): %s\n%s" % (p.returncode, " ".join(cmd) if isinstance(cmd, list) else cmd, p.stdout[-4000:]))
    return p.returncode, p.stdout


def sha(s):
    return hashlib.sha1(s.encode() if isinstance(s, str) else s).hexdigest()[:12]


class Violation:
    def __init__(self, prop, sig, what, detail=None):
        self.prop, self.sig, self.what, self.detail = prop, sig, what, detail or {}


def load_findings():
    import glob
    paths = [os.path.join(VERIF, "known_findings.jsonl")] + sorted(glob.glob(os.path.join(VERIF, "modules", "*", "known_findings.jsonl")))
    known, fixed = {}, []
    for path in paths:
        if not os.path.exists(path):
            continue
        for line in open(path):
            line = line.strip()
            if not line or line.startswith("#"):
                continue
            if line.startswith("fixed:"):
                fixed.append(line)
                continue
            d = json.loads(line)
            known[(d["property"], d["sig"])] = d
    return known, fixed


def save_replay(prop, name, obj):
    d = os.path.join(VERIF, "replays", prop)
    os.makedirs(d, exist_ok=True)
    path = os.path.join(d, name)
    with open(path, "w") as f:
        if isinstance(obj, (dict, list)):
            json.dump(obj, f, indent=1, sort_keys=True)
        else:
            f.write(obj)
    return path


def write_evidence(ctx, level, coverage, assumptions, violations):
    ev = {
        "property_id": ctx.prop, "tier": ctx.tier, "seed": int(ctx.seed), "level": level,
        "coverage": coverage, "assumptions": assumptions, "wall_s": round(ctx.elapsed(), 2),
        "violations": violations,
    }
    evdir = os.path.join(VERIF, "evidence")
    if os.path.realpath(REPO) != "/repo":
        # a run against another checkout (seeded change in a scratch worktree) must not overwrite the evidence of /repo
        evdir = os.path.join(os.environ.get("VERIF_SCRATCH_BASE", "/tmp"), "verif-evidence-other-checkout")
    os.makedirs(evdir, exist_ok=True)
    path = os.path.join(evdir, ctx.prop + ".json")
    tmp = "%s.%d.tmp" % (path, os.getpid())   # unique: two runs of one property may finish at the same time
    with open(tmp, "w") as f:
        json.dump(ev, f, indent=1, sort_keys=True, default=str)
    os.replace(tmp, path)
    return path


def verdict(ctx, violations, level, coverage, assumptions):
    """Print KNOWN-FINDING / VIOLATION lines, write evidence, return exit code."""
    known, _ = load_findings()
    new, seen_known = [], {}
    for v in violations:
        k = known.get((v.prop, v.sig))
        if k is not None:
            seen_known[(v.prop, v.sig)] = k
        else:
            new.append(v)
    for (p, s), k in sorted(seen_known.items()):
        print("KNOWN-FINDING: property=%s sig=%s %s" % (p, s, k.get("what", "")))
    # a listed finding that no longer reproduces is reported (informational), it suppresses nothing
    for (p, s), k in sorted(known.items()):
        if p == ctx.prop and (p, s) not in seen_known:
            print("note: known finding not observed in this run: property=%s sig=%s" % (p, s), file=sys.stderr)
    code = 0
    shown = set()
    for v in new:
        if v.sig in shown:
            continue
        shown.add(v.sig)
        path = save_replay(v.prop, "violation-%s.json" % sha(v.sig), {"property": v.prop, "sig": v.sig, "what": v.what, "detail": v.detail, "tier": ctx.tier, "seed": ctx.seed})
        print("VIOLATION property=%s replay=%s" % (v.prop, path))
        print("  sig=%s %s" % (v.sig, v.what))
        code = 1
    coverage = dict(coverage)
    coverage["known_findings_observed"] = sorted(s for (_, s) in seen_known)
    write_evidence(ctx, level, coverage, assumptions, len(new))
    return code
