"""Running TLC (exhaustive, simulation, trace validation) and parsing what it prints."""
import glob, json, os, re, shutil, subprocess
from .common import Broken, NCPU, VERIF, run

COMMON = os.path.join(VERIF, "specs_common")


def stage(ctx, module_dir, name):
    """Copy a module's TLA+ files into a fresh scratch dir (TLC litters states/, TTrace files)."""
    d = ctx.sub(name)
    for pat in ("*.tla", "*.cfg"):
        for f in glob.glob(os.path.join(module_dir, pat)):
            shutil.copy(f, d)
        if os.path.isdir(COMMON):
            for f in glob.glob(os.path.join(COMMON, pat)):
                shutil.copy(f, d)
    return d


class TlcResult:
    def __init__(self, out, rc):
        self.out, self.rc = out, rc
        m = re.search(r"(\d+) states generated, (\d+) distinct states found", out)
        self.generated = int(m.group(1)) if m else 0
        self.distinct = int(m.group(2)) if m else 0
        m = re.search(r"depth of the complete state graph search is (\d+)", out)
        self.depth = int(m.group(1)) if m else 0
        self.violated = re.findall(r"Error: (?:Invariant|Action property|Temporal property) (\S+) (?:is|was) violated", out)
        if "Temporal properties were violated" in out:
            self.violated.append("TEMPORAL")
        self.deadlock = "Deadlock reached" in out
        self.postcondition_false = "Postcondition" in out and "is false" in out or "violated" in out and "POSTCONDITION" in out
        self.ok = ("Model checking completed. No error has been found." in out) or ("Finished in" in out and not self.violated and "Error:" not in out)
        self.errors = re.findall(r"^Error: .*$", out, re.M)
        # PrintT'ed tuples <<"TAG", "json">>
        self.prints = {}
        for m in re.finditer(r'^<<"([A-Z_]+)", (".*")>>$', out, re.M):
            try:
                self.prints.setdefault(m.group(1), []).append(json.loads(json.loads(m.group(2))))
            except Exception:
                pass
        self.coverage = {}

    def action_coverage(self):
        """Parse -coverage output: action name -> (distinct, total)."""
        cov = {}
        for m in re.finditer(r"^<(\w+) line \d+, col \d+ to line \d+, col \d+ of module \w+>: (\d+):(\d+)", self.out, re.M):
            a = m.group(1)
            d, t = int(m.group(2)), int(m.group(3))
            cov[a] = (cov.get(a, (0, 0))[0] + d, cov.get(a, (0, 0))[1] + t)
        return cov


def tlc(ctx, cwd, spec, cfg, workers=None, timeout=1800, simulate=None, depth=None, seed=None, dump_trace=None,
        deadlock_off=False, coverage=False, dfs=False, extra=None, heap=None):
    meta = os.path.join(cwd, "meta-" + os.path.splitext(cfg)[0])
    cmd = ["timeout", str(timeout), "tlc"]
    env = dict(os.environ)
    jto = []
    if dfs:
        jto.append("-Dtlc2.tool.queue.IStateQueue=StateDeque")
    jto.append("-Xss256m")
    # the tlc wrapper takes 25 % of RAM per JVM; several checks run side by side, so cap the heap
    jto.append("-Xmx" + (heap or os.environ.get("VERIF_TLC_HEAP", "6g")))
    env["JAVA_TOOL_OPTIONS"] = " ".join(jto)
    cmd += ["-workers", str(workers or NCPU), "-metadir", meta, "-config", cfg]
    if simulate:
        cmd += ["-simulate", simulate]
    if depth:
        cmd += ["-depth", str(depth)]
    if seed is not None:
        cmd += ["-seed", str(seed)]
    if dump_trace:
        cmd += ["-dumpTrace", "json", dump_trace]
    if deadlock_off:
        cmd += ["-deadlock"]
    if coverage:
        cmd += ["-coverage", "1"]
    cmd += (extra or []) + [spec]
    p = subprocess.run(cmd, cwd=cwd, env=env, stdout=subprocess.PIPE, stderr=subprocess.STDOUT, text=True, errors="replace")
    shutil.rmtree(meta, ignore_errors=True)
    for f in glob.glob(os.path.join(cwd, "*_TTrace_*")):
        try:  # several TLC runs may share a staging dir (thread pool): another thread may have removed it already
            os.remove(f)
        except OSError:
            pass
    if p.returncode == 124:
        raise Broken("TLC timed out after %ss on %s/%s" % (timeout, spec, cfg))
    r = TlcResult(p.stdout, p.returncode)
    if "Parsing or semantic analysis failed" in p.stdout or "java.lang.OutOfMemoryError" in p.stdout or "Error: TLC threw an unexpected exception" in p.stdout or "was not found" in p.stdout and "Error:" in p.stdout and r.generated == 0 and not r.violated:
        raise Broken("TLC failed on %s/%s:\n%s" % (spec, cfg, p.stdout[-3000:]))
    return r


def model_check(ctx, cwd, spec, cfg, expect_ok=True, **kw):
    r = tlc(ctx, cwd, spec, cfg, **kw)
    if expect_ok and not r.ok:
        raise Broken("model %s/%s does not satisfy its properties (model defect, not a verdict):\n%s" % (spec, cfg, r.out[-3000:]))
    return r


def counterexample_hist(ctx, cwd, spec, cfg, var="hist", **kw):
    """Run TLC on a deviation config expected to violate; return the history variable of the last state."""
    path = os.path.join(cwd, "ce-" + os.path.splitext(cfg)[0] + ".json")
    r = tlc(ctx, cwd, spec, cfg, dump_trace=path, **kw)
    if not r.violated or not os.path.exists(path):
        return None, r
    ce = json.load(open(path))
    states = ce["counterexample"]["state"]
    return states[-1][1][var], r


def simulate_hists(ctx, cwd, spec, cfg, num, depth, seed, workers=1, tag="SCHED", timeout=600):
    """-simulate with an invariant that PrintT's the history at every visited state; keep maximal ones."""
    r = tlc(ctx, cwd, spec, cfg, workers=workers, simulate="num=%d" % num, depth=depth, seed=seed, deadlock_off=True, timeout=timeout)
    if r.violated:
        raise Broken("simulation config %s reported a violation:\n%s" % (cfg, r.out[-2000:]))
    hs = r.prints.get(tag, [])
    out = []
    for i, h in enumerate(hs):
        nxt = hs[i + 1] if i + 1 < len(hs) else None
        if nxt is not None and len(nxt) > len(h) and nxt[:len(h)] == h:
            continue
        out.append(h)
    # dedup
    seen, uniq = set(), []
    for h in out:
        k = json.dumps(h, sort_keys=True)
        if k not in seen:
            seen.add(k)
            uniq.append(h)
    return uniq, r


def sany(cwd, spec):
    rc, out = run(["tla-sany", spec], cwd=cwd)
    if rc != 0 or "Semantic errors" in out or "Parse Error" in out or "Fatal errors" in out:
        raise Broken("SANY failed on %s:\n%s" % (spec, out[-2000:]))
