"""The two trace-validation layers (DESIGN §2.2) as reusable steps."""
import os, shutil
from .common import Broken
from . import tlc as T
from .gorun import write_ndjson


def observe(ctx, module_dir, spec, cfg, rows, name="obs", timeout=900, extra_files=None):
    """Layer O.  Returns (consumed, [(line_no, invariant_name), ...])."""
    if not rows:
        raise Broken("empty trace: the harness recorded nothing")
    d = T.stage(ctx, module_dir, name)
    write_ndjson(os.path.join(d, "trace.ndjson"), rows)
    for k, v in (extra_files or {}).items():
        shutil.copy(v, os.path.join(d, k))
    r = T.tlc(ctx, d, spec, cfg, workers=1, timeout=timeout, deadlock_off=True)
    obs = r.prints.get("OBS")
    if not obs:
        raise Broken("observation layer produced no result (%s):\n%s" % (spec, r.out[-3000:]))
    o = obs[-1]
    if o["consumed"] != len(rows):
        raise Broken("observation layer consumed %s of %d lines" % (o["consumed"], len(rows)))
    return o["consumed"], [(v[0], v[1]) for v in o["viol"]], r


def conform(ctx, module_dir, spec, cfg, rows, name="conf", timeout=900, cfg_text=None, dfs=True):
    """Layer C.  Returns (reached, total, TlcResult); reached == total means accepted."""
    d = T.stage(ctx, module_dir, name)
    write_ndjson(os.path.join(d, "trace.ndjson"), rows)
    if cfg_text is not None:
        with open(os.path.join(d, cfg), "w") as f:
            f.write(cfg_text)
    r = T.tlc(ctx, d, spec, cfg, workers=1, timeout=timeout, deadlock_off=True, dfs=dfs)
    c = r.prints.get("CONF")
    if not c:
        raise Broken("conformance layer produced no result (%s):\n%s" % (spec, r.out[-3000:]))
    return c[-1]["reached"], c[-1]["total"], r
