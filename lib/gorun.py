"""Building and running the Go harnesses against /repo's working tree through `go test -overlay`."""
import json, os, re
from .common import Broken, REPO, go_env, run


def go_test(ctx, gomod_dir, pkg, overlay, run_re, env=None, timeout=900, tags="verif", toolchain=None, race=False):
    """overlay: {repo-relative target path: absolute source path}. Returns stdout. Raises Broken on build failure."""
    repl = {os.path.join(REPO, t): s for t, s in overlay.items()}
    ov = os.path.join(ctx.scratch, "overlay-%d.json" % len(os.listdir(ctx.scratch)))
    with open(ov, "w") as f:
        json.dump({"Replace": repl}, f)
    e = go_env()
    if toolchain:
        e["GOTOOLCHAIN"] = toolchain
    e.update(env or {})
    e["TMPDIR"] = ctx.sub("gotmp")
    cmd = ["go", "test", "-tags", tags, "-vet=off", "-overlay", ov, "-count=1", "-run", run_re, "-timeout", "%ds" % timeout]
    if race:
        cmd.append("-race")
    cmd += ["-v", pkg]
    rc, out = run(cmd, cwd=os.path.join(REPO, gomod_dir), env=e, timeout=timeout + 120)
    if "[build failed]" in out or "[setup failed]" in out or re.search(r"^# ", out, re.M) and rc != 0 and "--- " not in out:
        raise Broken("harness build failed for %s:\n%s" % (pkg, out[-4000:]))
    if "no tests to run" in out or "[no test files]" in out:
        raise Broken("harness test %s not found in %s (overlay not applied?)\n%s" % (run_re, pkg, out[-2000:]))
    return rc, out


def read_ndjson(path):
    out = []
    if not os.path.exists(path):
        return out
    for line in open(path):
        line = line.strip()
        if line:
            out.append(json.loads(line))
    return out


def write_ndjson(path, rows):
    with open(path, "w") as f:
        for r in rows:
            f.write(json.dumps(r, sort_keys=True, separators=(",", ":")))
            f.write("\n")
