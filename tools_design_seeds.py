#!/usr/bin/env python3
"""Regenerates DESIGN.md sections 0a.7 (seeded changes, from seeded/*/meta.json) and keeps 0a.8 (limits) in place."""
import glob, json, os, re
rows = []
tot = caught = 0
for d in sorted(glob.glob('/verif/seeded/C*-*')):
    mp = os.path.join(d, 'meta.json')
    if not os.path.exists(mp):
        continue
    m = json.load(open(mp)); c = m.get('confirmed_by_lead', {})
    what = (m.get('summary') or m.get('description') or '')
    what = re.sub(r'\s+', ' ', what)[:170].replace('|', '/')
    needs = re.sub(r'\s+', ' ', str(m.get('needs_to_manifest') or m.get('needs') or ''))[:120].replace('|', '/')
    tot += 1
    if c.get('caught'):
        caught += 1
        res = '**caught** ' + ', '.join('`%s`' % s for s in c.get('signatures', [])[:2])
    else:
        res = 'not caught (exit %s)' % c.get('check_exit') if c else 'not run'
    if m.get('rebased_by_lead'):
        what += ' (re-based by the lead, see meta.json)'
    rows.append('| %s | %s | %s | %s |' % (os.path.basename(d), what, needs, res))
sec = """
### 0a.7 Seeded changes (independent sub-agents, each given only the property text and a scratch worktree) and which check catches them

Each change compiles, passes the repository's existing tests of the touched packages (re-run by the lead: `seeded/confirm_tests.sh`,
result in each `meta.json`), comes with a demonstration that fails with the change and passes without it (re-run by the lead), and was
run against the property's quick check in a scratch worktree of /repo HEAD (`seeded/run_seed.sh <dir> <property>`; /repo itself is
never touched). %d of %d are caught. Several were missed by the first version of a check and led to a stronger model or harness
(wider rule alphabets for Acl, negative error codes and concurrent downloads for Lfs, multi-key revisions / compaction / blind
reacquire for Lease, `%%`-escapes and prefix-named topics for Store, ACL shapes and fetch-by-id for Handler, mid-request health flips
for S3Health, replica failure kinds for DualS3, cookie lists for ConsoleAuth, cache history for ProxyMeta, query pairs differing after
a cut for SqlProxyAuth, index loss / eight producers / fetch path / decoy partitions for Log); harnesses that died on a change (exit 2)
were made to skip steps the code no longer takes and still evaluate what was observed.

Seeds come in two rounds: A/B first, then C/D from fresh agents that were told what A/B had done and asked for different mechanisms.
Of the 68 round-2 seeds, 33 were missed by the checks as they stood (every module except Cache, Pitr, Acl, Idoc, Snapshot and
ProxyFanout missed at least one). What was added for them, per module (details in each `NOTES.md`): Log — request-context cancellation as an upload fault,
the stored-order conjunct of `C02_Monotone` with the trailing batch of an accepted concatenated payload, hole offsets in the fetch
grid, deviations `RestoreCountsOrphan{,Gap,Hide}` / `NoValidateConcat` / `ReadFloorSegment`; Group — store read/write faults on
JoinGroup, empty-subscription joins, 500 ms ticks, predicate `C15_ActsOnRestored`, single-worker (reproducible) deviation
counterexamples; Lease — several revisions in one watch response, reload merging; Handler — an environment step inside one produce's
lease acquisition and a stronger `Held`, per-principal ACL caches; S3Health — context-wrapped errors; Store — delete-and-recreate
offsets, same-count growth, raw-state comparison around MCP tools; Keys — partition counts incl. the −1 sentinel; LfsUpload —
completion-list shapes; LfsVerify — GetObject failing mid-stream; Processor — two partitions, lease loss, truncated decode, the real
S3 decoder; SqlPrune — the real S3 lister in the loop; SqlProxyAuth — `;` in mid-text; ConsoleAuth — the session-poll endpoint;
DualS3 and ProxyMeta — two overlapping requests; ProxyFanout — unchanged. The common causes of a miss were (a) an input or fault
class absent from the alphabet, (b) a one-schedule-per-state cover that dropped the discriminating representative, (c) a harness
whose own "before" read triggered the mutated write, (d) a sequential model for a path that gained request coalescing.

| seed | change (first words of the author's summary) | what it needs to manifest | result of the property's check |
|---|---|---|---|
%s
""" % (caught, tot, '\n'.join(rows))
s = open('/verif/DESIGN.md').read()
lim = open('/tmp/limits.md').read() if os.path.exists('/tmp/limits.md') else None
m1 = s.find('### 0a.7 Seeded changes')
marker = "---------------------------------------------------------------------------------------------------\n\n## 0. Summary table"
if m1 >= 0:
    m2 = s.find('### 0a.8')
    end = m2 if m2 >= 0 else s.find(marker)
    s = s[:m1] + sec.lstrip('\n') + '\n' + s[end:]
else:
    s = s.replace(marker, sec + (lim or '') + '\n' + marker, 1)
open('/verif/DESIGN.md', 'w').write(s)
print('seeded: %d/%d caught' % (caught, tot))
