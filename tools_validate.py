#!/usr/bin/env python3-vt
"""Validate MANIFEST.json and evidence/*.json against the given schemas (development aid)."""
import glob, json, sys, jsonschema
ok = True
jsonschema.validate(json.load(open('/verif/MANIFEST.json')), json.load(open('/root/.vp/MANIFEST.schema.json')))
es = json.load(open('/root/.vp/EVIDENCE.schema.json'))
for f in sorted(glob.glob('/verif/evidence/*.json')):
    try:
        jsonschema.validate(json.load(open(f)), es)
    except Exception as e:
        ok = False
        print("INVALID", f, str(e)[:300])
print("schemas ok" if ok else "schema errors")
sys.exit(0 if ok else 1)
