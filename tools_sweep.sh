#!/bin/bash
# tools_sweep.sh <seed> <tier> <lanes> [ids...] — run checks on /repo itself, several lanes in parallel; results in /tmp/sweep-<tier>-<seed>/
SEED=$1; TIER=$2; LANES=${3:-3}; shift 3
IDS=${@:-$(python3 -c "import json;print(' '.join(c['property_id'] for c in json.load(open('/verif/MANIFEST.json'))['checks']))")}
OUT=/tmp/sweep-$TIER-$SEED; mkdir -p $OUT
cd /verif
printf "%s\n" $IDS | xargs -P $LANES -I{} bash -c "s=\$(date +%s); VERIF_SEED=$SEED timeout 7200 ./vt check {} --tier $TIER > $OUT/{}.out 2>&1; echo \"exit=\$? wall=\$(( \$(date +%s) - s ))s\" >> $OUT/{}.out"
grep -H "^exit=" $OUT/*.out | sed 's#.*/##'
